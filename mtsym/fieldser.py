"""C11 / C08 / C02 (field level): serialisation templates of the date/time bearing fields and the custom
JSON codecs, executed from source on symbolic dates/times (z3 ints + strings)."""
import json
import os
import sys
import time

HERE = os.path.dirname(os.path.abspath(__file__))
sys.path.insert(0, HERE)
sys.path.insert(0, os.path.join(os.path.dirname(HERE), "lib"))

import z3  # noqa
import layout as layout_mod  # noqa
from structsym import *  # noqa
import structsym  # noqa

# documented canonical spelling up to and including the date / time component
PREFIX = {
    "Field30": [("lit", ":30:"), ("date", "execution_date")],
    "Field32A": [("lit", ":32A:"), ("date", "value_date"), ("str", "currency")],
    "Field32C": [("lit", ":32C:"), ("date", "value_date"), ("str", "currency")],
    "Field32D": [("lit", ":32D:"), ("date", "value_date"), ("str", "currency")],
    "Field60F": [("lit", ":60F:"), ("str", "debit_credit_mark"), ("date", "value_date"), ("str", "currency")],
    "Field60M": [("lit", ":60M:"), ("str", "debit_credit_mark"), ("date", "value_date"), ("str", "currency")],
    "Field62F": [("lit", ":62F:"), ("str", "debit_credit_mark"), ("date", "value_date"), ("str", "currency")],
    "Field62M": [("lit", ":62M:"), ("str", "debit_credit_mark"), ("date", "value_date"), ("str", "currency")],
    "Field64": [("lit", ":64:"), ("str", "debit_credit_mark"), ("date", "value_date"), ("str", "currency")],
    "Field65": [("lit", ":65:"), ("str", "debit_credit_mark"), ("date", "value_date"), ("str", "currency")],
    "Field61": [("lit", ":61:"), ("date", "value_date")],
    "Field13C": [("lit", ":13C:/"), ("str", "code"), ("lit", "/"), ("time", "time"), ("str", "sign"), ("str", "offset")],
    "Field13D": [("lit", ":13D:"), ("date", "date"), ("time", "time"), ("str", "offset_sign"), ("str", "offset")],
    "Field11R": [("lit", ":11R:"), ("str", "message_type"), ("date", "date")],
    "Field11S": [("lit", ":11S:"), ("str", "message_type"), ("date", "date")],
    "Field11": [("lit", ":11:"), ("str", "message_type"), ("date", "date")],
}
# parse side: content = prefix + six digits + suffix (canonical valid text around the date)
PARSE_DATE = {
    "Field30": ("", "", "execution_date"), "Field32A": ("", "USD100,00", "value_date"), "Field32C": ("", "USD100,00", "value_date"),
    "Field32D": ("", "USD100,00", "value_date"), "Field60F": ("C", "USD100,00", "value_date"), "Field60M": ("C", "USD100,00", "value_date"),
    "Field62F": ("C", "USD100,00", "value_date"), "Field62M": ("C", "USD100,00", "value_date"), "Field64": ("C", "USD100,00", "value_date"),
    "Field65": ("C", "USD100,00", "value_date"),
    "Field13D": ("", "1200+0100", "date"), "Field11S": ("103", "", "date"), "Field11R": ("103", "", "date"), "Field11": ("103", "", "date"),
}
CODECS = [("field13.rs", "date_format", "date"), ("field13.rs", "time_format", "time"), ("field11.rs", "date_string", "date"),
          ("field32.rs", "date_string", "date")]


def run(timeout_ms=120000):
    from common import replay_batch
    prog = Program(layout_mod.extract_ast())
    res = []
    for ty, pieces in sorted(PREFIX.items()):
        t0 = time.time()
        try:
            m = StructMachine(prog, K=1)
            inst = m.make(ty, ty)
            fn = prog.fns.get((ty, "to_swift_string", True))
            out, _ = m.call_fn(fn[0], [inst], True, self_ty=ty)
            sz = to_strz(out)
        except Unsupported as e:
            res.append({"type": ty, "query": "serialiser-template", "verdict": "not-encoded", "detail": str(e), "time_s": 0})
            continue
        exp = []
        for kind, name in pieces:
            if kind == "lit":
                exp.append(z3.StringVal(name))
            else:
                v = inst.fields[name]
                if kind == "str":
                    exp.append(to_strz(v))
                elif kind == "date":
                    exp.append(pad(v.y % 100, 2, True))
                    exp.append(pad(v.m, 2, True))
                    exp.append(pad(v.d, 2, True))
                elif kind == "time":
                    exp.append(pad(v.h, 2, True))
                    exp.append(pad(v.mi, 2, True))
        want = z3.Concat(*exp)
        s = z3.Solver()
        s.set("timeout", timeout_ms)
        s.add(*m.constraints)
        s.add(z3.Not(z3.PrefixOf(want, sz)))
        r = s.check()
        rec = {"type": ty, "query": "to_swift_string starts with the canonical tag/components/YYMMDD|HHMM spelling", "verdict": str(r),
               "time_s": round(time.time() - t0, 2)}
        if r == z3.sat:
            model = s.model()
            _, js = structsym.to_json(prog, model, inst)
            real = replay_batch([{"op": "field_json", "type": ty, "json": js}], "dev")[0]
            wantc = structsym._zstr(model.eval(want, model_completion=True))
            rec["witness"] = {"type": ty, "json": js, "expected_prefix": wantc, "real": real}
            if real.get("ok") and not str(real.get("swift", "")).startswith(wantc):
                rec["witness"]["why"] = "serialised as %r, documented spelling starts with %r" % (real.get("swift"), wantc)
            elif real.get("ok"):
                rec["verdict"] = "sat-not-reproduced"
            else:
                rec["verdict"] = "sat-not-replayable"
                rec["detail"] = str(real)[:200]
        res.append(rec)
    # parse side: the same six digits denote the same calendar date (50-year window) in every date-bearing field,
    # calendar-invalid dates are rejected — executed from source (robust where Kani cannot chew a rewritten parser)
    import fieldcheck
    for ty, (pre, suf, comp) in sorted(PARSE_DATE.items()):
        t0 = time.time()
        try:
            m = fieldcheck.FieldMachine(prog, 1)
            digs = [z3.Int("d%d" % k) for k in range(6)]
            for d in digs:
                m.constraints += [d >= 0, d <= 9]
            text = z3.Concat(z3.StringVal(pre), *[z3.StrFromCode(48 + d) for d in digs], z3.StringVal(suf)) if (pre or suf) else z3.Concat(*[z3.StrFromCode(48 + d) for d in digs])
            parse = prog.fns[(ty, "parse", True)][0]
            r, _ = m.call_fn(parse, [LineZ(text)], True, self_ty=ty)
            if not isinstance(r, Res) or r.val is None:
                raise Unsupported("parse did not return a Result with a value")
            dv = r.val.fields[comp]
            if not isinstance(dv, DateV):
                raise Unsupported("component %s is not a date" % comp)
        except Unsupported as e:
            res.append({"type": ty, "query": "parse: same digits, same date", "verdict": "not-encoded", "detail": str(e)[:200], "time_s": 0})
            continue
        yy = digs[0] * 10 + digs[1]
        mm = digs[2] * 10 + digs[3]
        dd = digs[4] * 10 + digs[5]
        yr = z3.If(yy <= 49, 2000 + yy, 1900 + yy)
        valid = valid_date(yr, mm, dd)
        # amounts in the constant suffix are taken as valid
        if hasattr(m, "_amt_ok"):
            m.constraints.append(z3.ForAll([z3.String("a")], m._amt_ok(z3.String("a"))))
            m.constraints.append(z3.ForAll([z3.String("a")], z3.fpGT(m._amt_val(z3.String("a")), z3.FPVal(0.0, z3.Float64()))))
        if hasattr(m, "_dec_ok"):
            fa, sa = z3.FP("fa", z3.Float64()), z3.String("sa")
            m.constraints.append(z3.ForAll([fa, sa], m._dec_ok(fa, sa)))
        s = z3.Solver()
        s.set("timeout", timeout_ms)
        s.add(*m.constraints)
        s.add(z3.Or(B(r.ok) != valid, z3.And(B(r.ok), z3.Not(z3.And(dv.y == yr, dv.m == mm, dv.d == dd)))))
        rr = s.check()
        rec = {"type": ty, "query": "parse: six digits -> calendar-valid date in the 50-year window, same in every field", "verdict": str(rr),
               "time_s": round(time.time() - t0, 2)}
        if rr == z3.sat:
            model = s.model()
            dstr = "".join(str(model.eval(d, model_completion=True).as_long()) for d in digs)
            content = pre + dstr + suf
            real = replay_batch([{"op": "field", "type": ty, "content": content}], "dev")[0]
            y2 = int(dstr[:2])
            want_year = 2000 + y2 if y2 <= 49 else 1900 + y2
            import datetime
            try:
                datetime.date(want_year, int(dstr[2:4]), int(dstr[4:6]))
                want_ok = True
            except ValueError:
                want_ok = False
            got_date = json.dumps(real.get("json", {}))
            iso = "%04d-%s-%s" % (want_year, dstr[2:4], dstr[4:6])
            yymmdd = dstr
            shows = (bool(real.get("ok")) != want_ok) or (real.get("ok") and iso not in got_date and ('"%s"' % yymmdd) not in got_date)
            rec["witness"] = {"type": ty, "content": content, "real": real}
            if shows:
                rec["witness"]["why"] = "content %r: digits %s mean %s (%s) but the field gives ok=%s %s" % (content, dstr, iso, "valid" if want_ok else "not a calendar date", real.get("ok"), got_date[:120])
            else:
                rec["verdict"] = "sat-not-reproduced"
        res.append(rec)
    # custom JSON codecs: deserialize(serialize(v)) == v for every value a parsed field can hold
    for file, mod, kind in CODECS:
        ser = prog.modfns.get((file, mod, "serialize"))
        de = prog.modfns.get((file, mod, "deserialize"))
        if ser is None or de is None:
            res.append({"type": "%s::%s" % (file, mod), "query": "json-codec", "verdict": "not-encoded", "detail": "codec module not found", "time_s": 0})
            continue
        t0 = time.time()
        try:
            m = StructMachine(prog, K=1)
            v = m.make("NaiveDate" if kind == "date" else "NaiveTime", "v")
            out, _ = m.call_fn(ser, [v, StructV("Serializer", {})], True)
            if not isinstance(out, Res):
                raise Unsupported("serialize did not return a Result")
            emitted = to_strz(out.val)
            m.deser_feed = out.val if isinstance(out.val, (StrZ, ChronoStr)) else StrZ(emitted)
            back, _ = m.call_fn(de, [StructV("Deserializer", {})], True)
            if not isinstance(back, Res):
                raise Unsupported("deserialize did not return a Result")
        except Unsupported as e:
            res.append({"type": "%s::%s" % (file, mod), "query": "json-codec", "verdict": "not-encoded", "detail": str(e), "time_s": 0})
            continue
        bv = back.val
        if kind == "date":
            same = z3.And(bv.y == v.y, bv.m == v.m, bv.d == v.d) if isinstance(bv, DateV) else False
        else:
            same = z3.And(bv.h == v.h, bv.mi == v.mi) if isinstance(bv, TimeV) else False
        s = z3.Solver()
        s.set("timeout", timeout_ms)
        s.add(*m.constraints)
        s.add(z3.Not(z3.And(B(back.ok), B(same))))
        r = s.check()
        rec = {"type": "%s::%s" % (file, mod), "query": "JSON codec: deserialize(serialize(v)) == v (dates 1950-2049 / all clock times)",
               "verdict": str(r), "time_s": round(time.time() - t0, 2)}
        if r == z3.sat:
            model = s.model()
            if kind == "date":
                val = "%04d-%02d-%02d" % tuple(model.eval(t, model_completion=True).as_long() for t in (v.y, v.m, v.d))
            else:
                val = "%02d:%02d" % tuple(model.eval(t, model_completion=True).as_long() for t in (v.h, v.mi))
            js = structsym._zstr(model.eval(emitted, model_completion=True))
            rec["witness"] = {"codec": "%s::%s" % (file, mod), "value": val, "json_text": js,
                              "why": "value %s is written to JSON as %r and read back differently" % (val, js)}
            probe = {"field13.rs::date_format": ("Field13D", "date"), "field13.rs::time_format": ("Field13D", "time"),
                     "field11.rs::date_string": ("Field11S", "date"), "field32.rs::date_string": ("Field32A", "value_date")}.get("%s::%s" % (file, mod))
            if probe:
                if kind == "date":
                    yy = "%02d%s%s" % (int(val[0:4]) % 100, val[5:7], val[8:10])
                    content = {"Field13D": yy + "1200+0100", "Field11S": "103" + yy, "Field32A": yy + "USD100,00"}[probe[0]]
                else:
                    content = "250115" + val.replace(":", "") + "+0100"
                real = replay_batch([{"op": "codec_roundtrip", "type": probe[0], "content": content}], "dev")[0]
                rec["witness"]["real"] = real
                if real.get("ok") and real.get("same"):
                    rec["verdict"] = "sat-not-reproduced"
                elif not real.get("ok"):
                    rec["verdict"] = "sat-not-replayable"
                    rec["detail"] = str(real)[:200]
        res.append(rec)
    return res


if __name__ == "__main__":
    for r in run():
        print("%-28s %-18s %5.2fs %s %s" % (r["type"], r["verdict"], r.get("time_s", 0), r["query"][:60], json.dumps(r.get("witness") or r.get("detail") or "")[:400]))
