"""C11 / C08 / C02 (field level): serialisation templates of the date/time bearing fields and the custom
JSON codecs, executed from source on symbolic dates/times (z3 ints + strings)."""
import json
import os
import sys
import time

HERE = os.path.dirname(os.path.abspath(__file__))
sys.path.insert(0, HERE)
sys.path.insert(0, os.path.join(os.path.dirname(HERE), "lib"))

import z3  # noqa
import layout as layout_mod  # noqa
from structsym import *  # noqa
import structsym  # noqa

# documented canonical spelling up to and including the date / time component
PREFIX = {
    "Field30": [("lit", ":30:"), ("date", "execution_date")],
    "Field32A": [("lit", ":32A:"), ("date", "value_date"), ("str", "currency")],
    "Field32C": [("lit", ":32C:"), ("date", "value_date"), ("str", "currency")],
    "Field32D": [("lit", ":32D:"), ("date", "value_date"), ("str", "currency")],
    "Field60F": [("lit", ":60F:"), ("str", "debit_credit_mark"), ("date", "value_date"), ("str", "currency")],
    "Field60M": [("lit", ":60M:"), ("str", "debit_credit_mark"), ("date", "value_date"), ("str", "currency")],
    "Field62F": [("lit", ":62F:"), ("str", "debit_credit_mark"), ("date", "value_date"), ("str", "currency")],
    "Field62M": [("lit", ":62M:"), ("str", "debit_credit_mark"), ("date", "value_date"), ("str", "currency")],
    "Field64": [("lit", ":64:"), ("str", "debit_credit_mark"), ("date", "value_date"), ("str", "currency")],
    "Field65": [("lit", ":65:"), ("str", "debit_credit_mark"), ("date", "value_date"), ("str", "currency")],
    "Field61": [("lit", ":61:"), ("date", "value_date")],
    "Field13C": [("lit", ":13C:/"), ("str", "code"), ("lit", "/"), ("time", "time"), ("str", "sign"), ("str", "offset")],
    "Field13D": [("lit", ":13D:"), ("date", "date"), ("time", "time"), ("str", "offset_sign"), ("str", "offset")],
    "Field11R": [("lit", ":11R:"), ("str", "message_type"), ("date", "date")],
    "Field11S": [("lit", ":11S:"), ("str", "message_type"), ("date", "date")],
    "Field11": [("lit", ":11:"), ("str", "message_type"), ("date", "date")],
}
CODECS = [("field13.rs", "date_format", "date"), ("field13.rs", "time_format", "time"), ("field11.rs", "date_string", "date"),
          ("field32.rs", "date_string", "date")]


def run(timeout_ms=120000):
    from common import replay_batch
    prog = Program(layout_mod.extract_ast())
    res = []
    for ty, pieces in sorted(PREFIX.items()):
        t0 = time.time()
        try:
            m = StructMachine(prog, K=1)
            inst = m.make(ty, ty)
            fn = prog.fns.get((ty, "to_swift_string", True))
            out, _ = m.call_fn(fn[0], [inst], True, self_ty=ty)
            sz = to_strz(out)
        except Unsupported as e:
            res.append({"type": ty, "query": "serialiser-template", "verdict": "not-encoded", "detail": str(e), "time_s": 0})
            continue
        exp = []
        for kind, name in pieces:
            if kind == "lit":
                exp.append(z3.StringVal(name))
            else:
                v = inst.fields[name]
                if kind == "str":
                    exp.append(to_strz(v))
                elif kind == "date":
                    exp.append(pad(v.y % 100, 2, True))
                    exp.append(pad(v.m, 2, True))
                    exp.append(pad(v.d, 2, True))
                elif kind == "time":
                    exp.append(pad(v.h, 2, True))
                    exp.append(pad(v.mi, 2, True))
        want = z3.Concat(*exp)
        s = z3.Solver()
        s.set("timeout", timeout_ms)
        s.add(*m.constraints)
        s.add(z3.Not(z3.PrefixOf(want, sz)))
        r = s.check()
        rec = {"type": ty, "query": "to_swift_string starts with the canonical tag/components/YYMMDD|HHMM spelling", "verdict": str(r),
               "time_s": round(time.time() - t0, 2)}
        if r == z3.sat:
            model = s.model()
            _, js = structsym.to_json(prog, model, inst)
            real = replay_batch([{"op": "field_json", "type": ty, "json": js}], "dev")[0]
            wantc = structsym._zstr(model.eval(want, model_completion=True))
            rec["witness"] = {"type": ty, "json": js, "expected_prefix": wantc, "real": real}
            if real.get("ok") and not str(real.get("swift", "")).startswith(wantc):
                rec["witness"]["why"] = "serialised as %r, documented spelling starts with %r" % (real.get("swift"), wantc)
            elif real.get("ok"):
                rec["verdict"] = "sat-not-reproduced"
            else:
                rec["verdict"] = "sat-not-replayable"
                rec["detail"] = str(real)[:200]
        res.append(rec)
    # custom JSON codecs: deserialize(serialize(v)) == v for every value a parsed field can hold
    for file, mod, kind in CODECS:
        ser = prog.modfns.get((file, mod, "serialize"))
        de = prog.modfns.get((file, mod, "deserialize"))
        if ser is None or de is None:
            res.append({"type": "%s::%s" % (file, mod), "query": "json-codec", "verdict": "not-encoded", "detail": "codec module not found", "time_s": 0})
            continue
        t0 = time.time()
        try:
            m = StructMachine(prog, K=1)
            v = m.make("NaiveDate" if kind == "date" else "NaiveTime", "v")
            out, _ = m.call_fn(ser, [v, StructV("Serializer", {})], True)
            if not isinstance(out, Res):
                raise Unsupported("serialize did not return a Result")
            emitted = to_strz(out.val)
            m.deser_feed = out.val if isinstance(out.val, (StrZ, ChronoStr)) else StrZ(emitted)
            back, _ = m.call_fn(de, [StructV("Deserializer", {})], True)
            if not isinstance(back, Res):
                raise Unsupported("deserialize did not return a Result")
        except Unsupported as e:
            res.append({"type": "%s::%s" % (file, mod), "query": "json-codec", "verdict": "not-encoded", "detail": str(e), "time_s": 0})
            continue
        bv = back.val
        if kind == "date":
            same = z3.And(bv.y == v.y, bv.m == v.m, bv.d == v.d) if isinstance(bv, DateV) else False
        else:
            same = z3.And(bv.h == v.h, bv.mi == v.mi) if isinstance(bv, TimeV) else False
        s = z3.Solver()
        s.set("timeout", timeout_ms)
        s.add(*m.constraints)
        s.add(z3.Not(z3.And(B(back.ok), B(same))))
        r = s.check()
        rec = {"type": "%s::%s" % (file, mod), "query": "JSON codec: deserialize(serialize(v)) == v (dates 1950-2049 / all clock times)",
               "verdict": str(r), "time_s": round(time.time() - t0, 2)}
        if r == z3.sat:
            model = s.model()
            if kind == "date":
                val = "%04d-%02d-%02d" % tuple(model.eval(t, model_completion=True).as_long() for t in (v.y, v.m, v.d))
            else:
                val = "%02d:%02d" % tuple(model.eval(t, model_completion=True).as_long() for t in (v.h, v.mi))
            js = structsym._zstr(model.eval(emitted, model_completion=True))
            rec["witness"] = {"codec": "%s::%s" % (file, mod), "value": val, "json_text": js,
                              "why": "value %s is written to JSON as %r and read back differently" % (val, js)}
            probe = {"field13.rs::date_format": ("Field13D", "date"), "field13.rs::time_format": ("Field13D", "time"),
                     "field11.rs::date_string": ("Field11S", "date"), "field32.rs::date_string": ("Field32A", "value_date")}.get("%s::%s" % (file, mod))
            if probe:
                if kind == "date":
                    yy = "%02d%s%s" % (int(val[0:4]) % 100, val[5:7], val[8:10])
                    content = {"Field13D": yy + "1200+0100", "Field11S": "103" + yy, "Field32A": yy + "USD100,00"}[probe[0]]
                else:
                    content = "250115" + val.replace(":", "") + "+0100"
                real = replay_batch([{"op": "codec_roundtrip", "type": probe[0], "content": content}], "dev")[0]
                rec["witness"]["real"] = real
                if real.get("ok") and real.get("same"):
                    rec["verdict"] = "sat-not-reproduced"
                elif not real.get("ok"):
                    rec["verdict"] = "sat-not-replayable"
                    rec["detail"] = str(real)[:200]
        res.append(rec)
    return res


if __name__ == "__main__":
    for r in run():
        print("%-28s %-18s %5.2fs %s %s" % (r["type"], r["verdict"], r.get("time_s", 0), r["query"][:60], json.dumps(r.get("witness") or r.get("detail") or "")[:400]))
