"""C16: parser::sequence_parser::split_into_sequences, executed from source.

Input: n field occurrences in stamp order; the tag of each occurrence is a symbolic string over the vocabulary of every tag literal
the sequence parser mentions plus two fresh tags; values and stamps are distinct constants. The configuration ranges over the
configurations get_sequence_config returns plus the MT935 / MT940 style markers the function special-cases.

Contract used instead of code (7 lines at the top of the function): flattening the FieldMap and `sort_by_key(stamp)` yields the
occurrences in stamp order (stamps are distinct: parse_block4_fields stamps them with a strictly increasing counter — tokencheck).
Everything after the sort — boundary search, the MT204 / MT935 / MT940 special cases, the distribution loop — is the real source.

The three result maps are association lists: `m.entry(k).or_insert_with(Vec::new).push(x)` / `.or_default().push(x)` appends
(path condition, k, x). Queries: every occurrence is pushed exactly once over the three maps, under its own tag with its own value
and stamp (so nothing is dropped, duplicated, re-tagged or invented). Which sequence an occurrence goes to is not judged.
"""
import json
import os
import sys
import time

HERE = os.path.dirname(os.path.abspath(__file__))
sys.path.insert(0, HERE)
sys.path.insert(0, os.path.join(os.path.dirname(HERE), "lib"))

import z3  # noqa
import layout as layout_mod  # noqa
from structsym import *  # noqa
import structsym  # noqa
import interp  # noqa

ALWAYS_A = ("72", "77E", "79")


class Assoc:
    """HashMap<String, Vec<(String, usize)>> built by entry(k).or_insert_with(Vec::new).push(x): guarded (key, value) records"""
    __slots__ = ("recs",)

    def __init__(self, recs=()):
        self.recs = tuple(recs)


_prev_merge = interp.merge


def _merge_seq(c, a, b):
    if isinstance(a, Assoc) and isinstance(b, Assoc):
        k = 0
        while k < len(a.recs) and k < len(b.recs) and a.recs[k] is b.recs[k]:
            k += 1
        return Assoc(a.recs[:k] + tuple((And(c, g), key, v) for g, key, v in a.recs[k:])
                     + tuple((And(Not(c), g), key, v) for g, key, v in b.recs[k:]))
    return _prev_merge(c, a, b)


class SeqMachine(StructMachine):
    def ev_call(self, e, fr, guard):
        f = e["func"]
        if f["k"] == "path" and f["path"].split("::")[-2:] in (["HashMap", "new"], ["HashMap", "with_capacity"]):
            return Assoc()
        return super().ev_call(e, fr, guard)

    def ev_mcall(self, e, fr, guard):
        # <map>.entry(k).or_insert_with(Vec::new).push(x)   /   <map>.entry(k).or_default().push(x)
        r1 = e["recv"]
        if e["method"] == "push" and r1.get("k") == "mcall" and r1["method"] in ("or_insert_with", "or_default", "or_insert"):
            r2 = r1["recv"]
            if r2.get("k") == "mcall" and r2["method"] == "entry":
                mp = self.eval(r2["recv"], fr, guard)
                if isinstance(mp, Assoc):
                    key = self.eval(r2["args"][0], fr, guard)
                    val = self.eval(e["args"][0], fr, guard)
                    self.assign(r2["recv"], Assoc(mp.recs + ((self.live(fr, guard), key, val),)), fr, guard)
                    return UNIT
        if e["method"] == "trim_end_matches" and len(e["args"]) == 1 and e["args"][0].get("k") == "path" \
                and e["args"][0]["path"] in ("char::is_alphabetic", "char::is_ascii_alphabetic"):
            v = self.eval(r1, fr, guard)
            if isinstance(v, str):
                return v.rstrip("ABCDEFGHIJKLMNOPQRSTUVWXYZabcdefghijklmnopqrstuvwxyz")
            if isinstance(v, StrZ):
                # exact on the finite tag vocabulary every symbolic tag ranges over (self.voc; constrained in m.constraints)
                z = to_strz(v)
                out = z
                for w in self.voc:
                    out = z3.If(z == z3.StringVal(w), z3.StringVal(w.rstrip("ABCDEFGHIJKLMNOPQRSTUVWXYZabcdefghijklmnopqrstuvwxyz")), out)
                return StrZ(out)
        return super().ev_mcall(e, fr, guard)

    def builtin_method(self, recv, meth, args, e, fr, guard):
        if isinstance(recv, Assoc):
            if meth == "clone":
                return recv
            if meth == "is_empty":
                return Not(Or(*[g for g, _, _ in recv.recs]))
            if meth == "clear":
                live = self.live(fr, guard)
                self.assign(e["recv"], Assoc() if (not is_sym(live) and live) else _merge_seq(live, Assoc(), recv), fr, guard)
                return UNIT
            raise Unsupported("map method .%s on a result map" % meth)
        if isinstance(recv, VecV) and meth == "position" and args and isinstance(args[0], Closure):
            # FnMut closure: assignments to captured variables persist from one element to the next
            cl = args[0]
            f = cl.frame.copy()
            found, res = False, []
            for k, (g, v) in enumerate(recv.items):
                if is_sym(g) or g is not True:
                    raise Unsupported("position over a guarded vector")
                for p, a in zip(cl.params, [v]):
                    self.bind(p, a, f)
                hit = self.as_bool(self.eval(cl.body, f, guard))
                res.append((And(hit, Not(found)), k))
                found = Or(found, hit)
            val = 0
            for c, r in reversed(res):
                val = If(c, r, val) if is_sym(c) else (r if c else val)
            return Opt(found, val)
        if isinstance(recv, VecV) and meth in ("skip", "take") and args and (is_sym(args[0]) or isinstance(args[0], int)) \
                and not isinstance(args[0], bool):
            # symbolic count: an element is kept when its rank among the live elements before it is >= n (skip) / < n (take)
            n = args[0]
            out, rank = [], 0
            for g, v in recv.items:
                keep = (rank >= n) if meth == "skip" else (rank < n)
                out.append((And(g, keep), v))
                rank = rank + (If(g, 1, 0) if is_sym(g) else (1 if g else 0))
            return VecV(tuple((g, v) for g, v in out if is_sym(g) or g))
        if isinstance(recv, Opt) and meth == "is_none_or" and args and isinstance(args[0], Closure):
            if recv.val is None:
                return Not(recv.present)
            return Or(Not(recv.present), self.as_bool(self.call_closure(args[0], [recv.val], fr, And(guard, recv.present))))
        return super().builtin_method(recv, meth, args, e, fr, guard)


def configs(prog):
    """the configurations get_sequence_config can return (read from its source) plus the markers the splitter special-cases"""
    out = [("MT101/MT107/MT110/default", "21", [], False),
           ("MT104", "21", ["32B", "19", "71F", "71G", "53"], True),
           ("MT204", "20", [], False),
           ("MT935-style", "23", [], False),
           ("MT940-style", "61", ["62F", "62M", "64", "65", "86"], True)]
    return out


def vocabulary(prog, cfgs):
    voc = {"20", "21", "23", "25", "61", "86", "72", "77E", "79", "59", "59A", "70", "71A", "77B", "36", "32B", "19", "71F", "71G",
           "53", "53A", "62F", "64", "57A", "50K", "23E", "21R"}
    for _, mk, cf, _ in cfgs:
        voc.add(mk)
        voc.update(cf)
    return sorted(voc)


def body_after_sort(fn):
    stmts = fn["body"]["stmts"]
    for i, st in enumerate(stmts):
        if st["k"] == "sexpr" and st["expr"].get("k") == "mcall" and st["expr"]["method"] in ("sort_by_key", "sort_by", "sort_unstable_by_key") \
                and st["expr"]["recv"].get("k") == "path" and st["expr"]["recv"]["path"] == "all_fields":
            return i
    return None


def run(N=5, timeout_ms=120000):
    from common import replay_batch
    interp.merge = _merge_seq
    structsym.merge = _merge_seq
    try:
        return _run(N, timeout_ms, replay_batch)
    finally:
        interp.merge = _prev_merge
        structsym.merge = _prev_merge


def _run(N, timeout_ms, replay_batch):
    prog = Program(layout_mod.extract_ast())
    res = []
    ent = prog.free.get("split_into_sequences")
    cfgs = configs(prog)
    voc = vocabulary(prog, cfgs)
    for cname, marker, cfields, has_c in cfgs:
        rec = {"type": "split_into_sequences", "query": "config %s, %d occurrences, tags over %d-word vocabulary + 2 fresh: every occurrence in exactly one "
               "sequence under its tag / value / stamp" % (cname, N, len(voc)), "bound": "N=%d" % N}
        t0 = time.time()
        try:
            if not ent:
                raise Unsupported("split_into_sequences not found")
            fn = ent[0]
            cut = body_after_sort(fn)
            if cut is None:
                raise Unsupported("split_into_sequences: `all_fields.sort_by_key(..)` not found (flatten-and-sort contract does not apply)")
            m = SeqMachine(prog, K=N)
            m.voc = list(voc) + ["98Z", "99"]
            tags = [z3.String("tag%d" % i) for i in range(N)]
            for t in tags:
                m.constraints.append(Or(*([t == z3.StringVal(w) for w in voc] + [t == z3.StringVal("98Z"), t == z3.StringVal("99")])))
            fr = Frame()
            fr.self_ty = None
            fr.generics = {}
            fr.vars["config"] = StructV("SequenceConfig", {
                "sequence_b_marker": StrZ(z3.StringVal(marker)),
                "sequence_c_fields": VecV(tuple((True, StrZ(z3.StringVal(c))) for c in cfields), dense=True),
                "has_sequence_c": has_c})
            occ = [TupleV((StrZ(tags[i]), TupleV((StrZ(z3.StringVal("V%d" % i)), 10 * i + 3)))) for i in range(N)]
            # statements before the sort: run the `let` of the three maps, skip the flatten loop; all_fields = occurrences in stamp order
            pre = {"stmts": [st for st in fn["body"]["stmts"][:cut] if st["k"] == "let" and "all_fields" not in json.dumps(st["pat"])]}
            rest = {"stmts": pre["stmts"] + [{"k": "let", "pat": {"k": "pident", "name": "all_fields", "mut": False, "by_ref": False, "sub": None},
                                              "init": {"k": "path", "path": "__all_fields"}, "line": 0}] + fn["body"]["stmts"][cut + 1:]}
            fr.vars["__all_fields"] = VecV(tuple((True, o) for o in occ), dense=True)
            v = m.exec_block(rest, fr, True)
            out = v
            for g, rv in reversed(fr.retvals):
                out = interp.merge(g, rv, out) if out is not None else rv
            ps = out
            while isinstance(ps, (ResV,)) if "ResV" in globals() else False:
                ps = ps.val
            st = find_struct(ps)
            if st is None:
                raise Unsupported("split_into_sequences did not return ParsedSequences (%s)" % type(out).__name__)
            seqs = [st.fields["sequence_a"], st.fields["sequence_b"], st.fields["sequence_c"]]
            if not all(isinstance(s, Assoc) for s in seqs):
                raise Unsupported("result maps are not association lists")
            bad = []
            where = []           # where[i][s] = occurrence i recorded in sequence s
            total = 0
            for i in range(N):
                row = []
                for s in seqs:
                    hits = []
                    for g, key, val in s.recs:
                        if not isinstance(val, TupleV):
                            raise Unsupported("pushed value is not a pair")
                        same = And(g, to_strz(key) == tags[i], to_strz(val.elems[0]) == z3.StringVal("V%d" % i), val.elems[1] == 10 * i + 3)
                        hits.append(same)
                    row.append(hits)
                cnt = sum(If(h, 1, 0) for hs in row for h in hs)
                bad.append(cnt != 1)
                where.append([Or(*hs) for hs in row])
            nrec = sum(If(g, 1, 0) for s in seqs for g, _, _ in s.recs)
            bad.append(nrec != N)
        except Unsupported as e:
            rec.update({"verdict": "not-encoded", "detail": str(e)[:300], "time_s": 0})
            res.append(rec)
            continue
        s = z3.Solver()
        s.set("timeout", timeout_ms)
        s.add(*[B(c) for c in m.constraints])
        if s.check() != z3.sat:
            rec.update({"verdict": "error", "detail": "vacuous"})
            res.append(rec)
            continue
        s.add(B(Or(*bad)))
        r = s.check()
        rec.update({"verdict": str(r), "time_s": round(time.time() - t0, 2)})
        if r == z3.sat:
            mdl = s.model()
            tg = [mdl.eval(t, model_completion=True).as_string() for t in tags]
            job = {"op": "split_sequences", "marker": marker, "c_fields": cfields, "has_c": has_c,
                   "fields": [[tg[i], "V%d" % i, 10 * i + 3] for i in range(N)]}
            real = replay_batch([job], "dev")[0]
            rec["witness"] = {"config": cname, "tags": tg, "real": real}
            why = judge(job, real)
            if why:
                rec["witness"]["why"] = why
                rec["witness"]["replay"] = job
            else:
                rec["verdict"] = "sat-not-reproduced"
        res.append(rec)
    return res


def run_repetitive(N=5, timeout_ms=120000):
    from common import replay_batch
    interp.merge = _merge_seq
    structsym.merge = _merge_seq
    try:
        return _run_rep(N, timeout_ms, replay_batch)
    finally:
        interp.merge = _prev_merge
        structsym.merge = _prev_merge


def _run_rep(N, timeout_ms, replay_batch):
    prog = Program(layout_mod.extract_ast())
    res = []
    ent = prog.free.get("parse_repetitive_sequence")
    voc = ["20", "21", "21R", "23", "25", "32B", "57A", "59", "70", "72", "98Z", "99"]
    for marker in ("21", "20", "23"):
        rec = {"type": "parse_repetitive_sequence", "query": "marker %s, %d occurrences, tags over a %d-word vocabulary: every occurrence from the first "
               "marker on is in exactly one item under its tag / value / stamp, earlier ones in none, every item starts with the marker" % (marker, N, len(voc)),
               "bound": "N=%d" % N}
        t0 = time.time()
        try:
            if not ent:
                raise Unsupported("parse_repetitive_sequence not found")
            fn = ent[0]
            cut = body_after_sort(fn)
            if cut is None:
                raise Unsupported("parse_repetitive_sequence: `all_fields.sort_by_key(..)` not found (flatten-and-sort contract does not apply)")
            m = SeqMachine(prog, K=N)
            m.voc = list(voc)
            tags = [z3.String("tag%d" % i) for i in range(N)]
            for t in tags:
                m.constraints.append(Or(*[t == z3.StringVal(w) for w in voc]))
            fr = Frame()
            fr.self_ty = None
            fr.generics = {}
            fr.vars["marker_field"] = marker
            occ = [TupleV((StrZ(tags[i]), StrZ(z3.StringVal("V%d" % i)), 10 * i + 3)) for i in range(N)]
            pre = [st for st in fn["body"]["stmts"][:cut] if st["k"] == "let" and "all_fields" not in json.dumps(st["pat"])]
            rest = {"stmts": pre + [{"k": "let", "pat": {"k": "pident", "name": "all_fields", "mut": False, "by_ref": False, "sub": None},
                                     "init": {"k": "path", "path": "__all_fields"}, "line": 0}] + fn["body"]["stmts"][cut + 1:]}
            fr.vars["__all_fields"] = VecV(tuple((True, o) for o in occ), dense=True)
            v = m.exec_block(rest, fr, True)
            out = v
            for g, rv in reversed(fr.retvals):
                out = interp.merge(g, rv, out) if out is not None else rv
            items = find_vec(out)
            if items is None or not all(isinstance(it, Assoc) for _, it in items.items):
                raise Unsupported("parse_repetitive_sequence did not return a vector of maps (%s)" % type(out).__name__)
            bad = []
            for i in range(N):
                hits = []
                for gi, it in items.items:
                    for g, key, val in it.recs:
                        if not isinstance(val, TupleV):
                            raise Unsupported("pushed value is not a pair")
                        hits.append(And(gi, g, to_strz(key) == tags[i], to_strz(val.elems[0]) == z3.StringVal("V%d" % i), val.elems[1] == 10 * i + 3))
                cnt = sum(If(h, 1, 0) for h in hits) if hits else 0
                started = Or(*[tags[j] == z3.StringVal(marker) for j in range(i + 1)])
                bad.append(cnt != If(started, 1, 0))
            nrec = sum(If(And(gi, g), 1, 0) for gi, it in items.items for g, _, _ in it.recs)
            want = sum(If(Or(*[tags[j] == z3.StringVal(marker) for j in range(i + 1)]), 1, 0) for i in range(N))
            bad.append(nrec != want)
            # as many items as marker occurrences
            nitems = sum(If(gi, 1, 0) for gi, _ in items.items) if items.items else 0
            bad.append(nitems != sum(If(t == z3.StringVal(marker), 1, 0) for t in tags))
        except Unsupported as e:
            rec.update({"verdict": "not-encoded", "detail": str(e)[:300], "time_s": 0})
            res.append(rec)
            continue
        s = z3.Solver()
        s.set("timeout", timeout_ms)
        s.add(*[B(c) for c in m.constraints])
        if s.check() != z3.sat:
            rec.update({"verdict": "error", "detail": "vacuous"})
            res.append(rec)
            continue
        s.add(B(Or(*bad)))
        r = s.check()
        rec.update({"verdict": str(r), "time_s": round(time.time() - t0, 2)})
        if r == z3.sat:
            mdl = s.model()
            tg = [mdl.eval(t, model_completion=True).as_string() for t in tags]
            job = {"op": "repetitive_sequence", "marker": marker, "fields": [[tg[i], "V%d" % i, 10 * i + 3] for i in range(N)]}
            real = replay_batch([job], "dev")[0]
            rec["witness"] = {"marker": marker, "tags": tg, "real": real}
            why = judge_rep(job, real)
            if why:
                rec["witness"]["why"] = why
                rec["witness"]["replay"] = job
            else:
                rec["verdict"] = "sat-not-reproduced"
        res.append(rec)
    return res


def judge_rep(job, real):
    """{"ok": true, "items": [[[tag, value, stamp]...]...]}"""
    if not real.get("ok"):
        return None
    fields = [tuple(x) for x in job["fields"]]
    first = next((k for k, f in enumerate(fields) if f[0] == job["marker"]), len(fields))
    want = sorted(fields[first:])
    got = sorted(tuple(x) for it in real.get("items", []) for x in it)
    nmark = sum(1 for f in fields if f[0] == job["marker"])
    if got != want or len(real.get("items", [])) != nmark:
        return "fields %s, marker %s: items %s — not every occurrence from the first marker on exactly once in one item per marker" % (
            job["fields"], job["marker"], real.get("items"))
    return None


def find_vec(v):
    seen = 0
    while v is not None and seen < 6:
        if isinstance(v, VecV):
            return v
        nxt = None
        for attr in ("val", "ok", "value", "inner"):
            if hasattr(v, attr):
                nxt = getattr(v, attr)
                break
        v = nxt
        seen += 1
    return None


def find_struct(v):
    seen = 0
    while v is not None and seen < 6:
        if isinstance(v, StructV) and "sequence_a" in v.fields:
            return v
        nxt = None
        for attr in ("val", "ok", "value", "inner"):
            if hasattr(v, attr):
                nxt = getattr(v, attr)
                break
        v = nxt
        seen += 1
    return None


def judge(job, real):
    """the property on the real result: {"ok": true, "a": [[tag, value, stamp]...], "b": [...], "c": [...]}"""
    if not real.get("ok"):
        return None
    want = sorted(tuple(x) for x in job["fields"])
    got = sorted(tuple(x) for s in ("a", "b", "c") for x in real.get(s, []))
    if got != want:
        return "fields %s: split gives A=%s B=%s C=%s — not every occurrence exactly once" % (job["fields"], real.get("a"), real.get("b"), real.get("c"))
    return None


if __name__ == "__main__":
    for r in run_repetitive(int(sys.argv[1]) if len(sys.argv) > 1 else 5) + run(int(sys.argv[1]) if len(sys.argv) > 1 else 5):
        print(r["verdict"], r.get("time_s"), r["query"][:40], json.dumps(r.get("witness") or r.get("detail") or "")[:600])
