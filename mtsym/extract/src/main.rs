//! mtsym-extract: dump the syn AST of Rust source files as JSON (one generic conversion; all
//! interpretation happens in the Python back end). Unknown node kinds become {"k":"raw"} so that
//! the back end can refuse to encode a function instead of silently skipping part of it.
use proc_macro2::Span;
use quote::ToTokens;
use serde_json::{json, Value};
use syn::*;

fn line(sp: Span) -> usize {
    sp.start().line
}
fn src<T: ToTokens>(t: &T) -> String {
    t.to_token_stream().to_string()
}
fn raw<T: ToTokens>(t: &T, what: &str) -> Value {
    json!({"k": "raw", "what": what, "src": src(t)})
}

fn attrs(a: &[Attribute]) -> Value {
    let mut docs = Vec::new();
    let mut others = Vec::new();
    for at in a {
        if at.path().is_ident("doc") {
            if let Meta::NameValue(nv) = &at.meta {
                if let Expr::Lit(ExprLit { lit: Lit::Str(s), .. }) = &nv.value {
                    docs.push(s.value());
                    continue;
                }
            }
        }
        others.push(src(&at.meta));
    }
    json!({"doc": docs, "attrs": others})
}

fn path_str(p: &Path) -> String {
    let mut s = String::new();
    if p.leading_colon.is_some() {
        s.push_str("::");
    }
    for (i, seg) in p.segments.iter().enumerate() {
        if i > 0 {
            s.push_str("::");
        }
        s.push_str(&seg.ident.to_string());
    }
    s
}
fn path_generics(p: &Path) -> Vec<String> {
    let mut g = Vec::new();
    for seg in p.segments.iter() {
        if let PathArguments::AngleBracketed(ab) = &seg.arguments {
            for a in ab.args.iter() {
                g.push(src(a).replace(' ', ""));
            }
        }
    }
    g
}

fn lit(l: &Lit) -> Value {
    match l {
        Lit::Str(s) => json!({"k": "str", "v": s.value()}),
        Lit::Int(i) => json!({"k": "int", "v": i.base10_digits(), "suffix": i.suffix()}),
        Lit::Float(f) => json!({"k": "float", "v": f.base10_digits()}),
        Lit::Bool(b) => json!({"k": "bool", "v": b.value}),
        Lit::Char(c) => json!({"k": "char", "v": c.value().to_string()}),
        Lit::Byte(b) => json!({"k": "byte", "v": b.value()}),
        Lit::ByteStr(b) => json!({"k": "bytestr", "v": b.value()}),
        _ => json!({"k": "raw", "what": "lit", "src": src(l)}),
    }
}

fn pat(p: &Pat) -> Value {
    match p {
        Pat::Ident(pi) => json!({"k": "pident", "name": pi.ident.to_string(), "by_ref": pi.by_ref.is_some(),
            "mutable": pi.mutability.is_some(), "sub": pi.subpat.as_ref().map(|(_, s)| pat(s))}),
        Pat::Wild(_) => json!({"k": "pwild"}),
        Pat::Lit(l) => json!({"k": "plit", "lit": lit(&l.lit)}),
        Pat::Or(o) => json!({"k": "por", "cases": o.cases.iter().map(pat).collect::<Vec<_>>()}),
        Pat::Path(pp) => json!({"k": "ppath", "path": path_str(&pp.path)}),
        Pat::Tuple(t) => json!({"k": "ptuple", "elems": t.elems.iter().map(pat).collect::<Vec<_>>()}),
        Pat::TupleStruct(ts) => json!({"k": "ptuplestruct", "path": path_str(&ts.path),
            "elems": ts.elems.iter().map(pat).collect::<Vec<_>>()}),
        Pat::Reference(r) => json!({"k": "pref", "pat": pat(&r.pat)}),
        Pat::Struct(s) => json!({"k": "pstruct", "path": path_str(&s.path),
            "fields": s.fields.iter().map(|f| json!({"member": src(&f.member), "pat": pat(&f.pat)})).collect::<Vec<_>>(),
            "rest": s.rest.is_some()}),
        Pat::Type(t) => json!({"k": "ptype", "pat": pat(&t.pat), "ty": src(&t.ty)}),
        Pat::Range(r) => json!({"k": "prange", "start": r.start.as_ref().map(|e| expr(e)), "end": r.end.as_ref().map(|e| expr(e)),
            "closed": matches!(r.limits, RangeLimits::Closed(_))}),
        Pat::Paren(p) => pat(&p.pat),
        _ => raw(p, "pat"),
    }
}

fn block(b: &Block) -> Value {
    json!({"k": "block", "stmts": b.stmts.iter().map(stmt).collect::<Vec<_>>()})
}

fn stmt(s: &Stmt) -> Value {
    match s {
        Stmt::Local(l) => {
            let (init, els) = match &l.init {
                Some(i) => (Some(expr(&i.expr)), i.diverge.as_ref().map(|(_, e)| expr(e))),
                None => (None, None),
            };
            json!({"k": "let", "pat": pat(&l.pat), "init": init, "else": els, "line": line(l.let_token.span)})
        }
        Stmt::Expr(e, semi) => json!({"k": "sexpr", "expr": expr(e), "semi": semi.is_some()}),
        Stmt::Macro(m) => json!({"k": "sexpr", "expr": mac(&m.mac), "semi": m.semi_token.is_some()}),
        Stmt::Item(i) => json!({"k": "sitem", "item": item(i)}),
    }
}

fn mac(m: &Macro) -> Value {
    let name = path_str(&m.path);
    // try to parse the arguments as a comma separated expression list
    let args: Option<Vec<Value>> = m
        .parse_body_with(punctuated::Punctuated::<Expr, Token![,]>::parse_terminated)
        .ok()
        .map(|p| p.iter().map(expr).collect());
    json!({"k": "macro", "name": name, "args": args, "src": m.tokens.to_string(), "line": line(m.path.segments[0].ident.span())})
}

fn binop(op: &BinOp) -> String {
    src(op)
}

fn expr(e: &Expr) -> Value {
    match e {
        Expr::Array(a) => json!({"k": "array", "elems": a.elems.iter().map(expr).collect::<Vec<_>>()}),
        Expr::Assign(a) => json!({"k": "assign", "left": expr(&a.left), "right": expr(&a.right)}),
        Expr::Binary(b) => json!({"k": "binary", "op": binop(&b.op), "left": expr(&b.left), "right": expr(&b.right)}),
        Expr::Block(b) => block(&b.block),
        Expr::Break(b) => json!({"k": "break", "label": b.label.as_ref().map(|l| l.ident.to_string()), "expr": b.expr.as_ref().map(|e| expr(e))}),
        Expr::Call(c) => json!({"k": "call", "func": expr(&c.func), "args": c.args.iter().map(expr).collect::<Vec<_>>(), "line": line(c.paren_token.span.open())}),
        Expr::Cast(c) => json!({"k": "cast", "expr": expr(&c.expr), "ty": src(&c.ty)}),
        Expr::Closure(c) => json!({"k": "closure", "inputs": c.inputs.iter().map(pat).collect::<Vec<_>>(), "body": expr(&c.body)}),
        Expr::Continue(_) => json!({"k": "continue"}),
        Expr::Field(f) => json!({"k": "field", "base": expr(&f.base), "member": src(&f.member)}),
        Expr::ForLoop(f) => json!({"k": "for", "pat": pat(&f.pat), "iter": expr(&f.expr), "body": block(&f.body), "line": line(f.for_token.span)}),
        Expr::Group(g) => expr(&g.expr),
        Expr::If(i) => json!({"k": "if", "cond": expr(&i.cond), "then": block(&i.then_branch),
            "else": i.else_branch.as_ref().map(|(_, e)| expr(e)), "line": line(i.if_token.span)}),
        Expr::Index(i) => json!({"k": "index", "base": expr(&i.expr), "index": expr(&i.index)}),
        Expr::Let(l) => json!({"k": "letcond", "pat": pat(&l.pat), "expr": expr(&l.expr)}),
        Expr::Lit(l) => json!({"k": "lit", "lit": lit(&l.lit)}),
        Expr::Loop(l) => json!({"k": "loop", "body": block(&l.body)}),
        Expr::Macro(m) => mac(&m.mac),
        Expr::Match(m) => json!({"k": "match", "expr": expr(&m.expr), "line": line(m.match_token.span),
            "arms": m.arms.iter().map(|a| json!({"pat": pat(&a.pat), "guard": a.guard.as_ref().map(|(_, g)| expr(g)), "body": expr(&a.body)})).collect::<Vec<_>>()}),
        Expr::MethodCall(m) => json!({"k": "mcall", "recv": expr(&m.receiver), "method": m.method.to_string(),
            "turbofish": m.turbofish.as_ref().map(|t| t.args.iter().map(|a| src(a).replace(' ', "")).collect::<Vec<_>>()),
            "args": m.args.iter().map(expr).collect::<Vec<_>>(), "line": line(m.method.span())}),
        Expr::Paren(p) => expr(&p.expr),
        Expr::Path(p) => json!({"k": "path", "path": path_str(&p.path), "generics": path_generics(&p.path),
            "qself": p.qself.as_ref().map(|q| src(&q.ty))}),
        Expr::Range(r) => json!({"k": "range", "start": r.start.as_ref().map(|e| expr(e)), "end": r.end.as_ref().map(|e| expr(e)),
            "closed": matches!(r.limits, RangeLimits::Closed(_))}),
        Expr::Reference(r) => json!({"k": "ref", "mutable": r.mutability.is_some(), "expr": expr(&r.expr)}),
        Expr::Return(r) => json!({"k": "return", "expr": r.expr.as_ref().map(|e| expr(e)), "line": line(r.return_token.span)}),
        Expr::Struct(s) => json!({"k": "struct", "path": path_str(&s.path),
            "fields": s.fields.iter().map(|f| json!({"member": src(&f.member), "expr": expr(&f.expr)})).collect::<Vec<_>>(),
            "rest": s.rest.as_ref().map(|e| expr(e))}),
        Expr::Try(t) => json!({"k": "try", "expr": expr(&t.expr)}),
        Expr::Tuple(t) => json!({"k": "tuple", "elems": t.elems.iter().map(expr).collect::<Vec<_>>()}),
        Expr::Unary(u) => json!({"k": "unary", "op": src(&u.op), "expr": expr(&u.expr)}),
        Expr::While(w) => json!({"k": "while", "cond": expr(&w.cond), "body": block(&w.body), "line": line(w.while_token.span)}),
        Expr::Unsafe(u) => block(&u.block),
        _ => raw(e, "expr"),
    }
}

fn sig(s: &Signature) -> Value {
    let params: Vec<Value> = s
        .inputs
        .iter()
        .map(|a| match a {
            FnArg::Receiver(r) => json!({"name": "self", "ty": src(r)}),
            FnArg::Typed(t) => json!({"name": src(&t.pat), "ty": src(&t.ty).replace(' ', "")}),
        })
        .collect();
    let ret = match &s.output {
        ReturnType::Default => "()".to_string(),
        ReturnType::Type(_, t) => src(t).replace(' ', ""),
    };
    json!({"name": s.ident.to_string(), "params": params, "ret": ret,
        "generics": s.generics.params.iter().map(|g| src(g)).collect::<Vec<_>>()})
}

fn fields(f: &Fields) -> Value {
    let v: Vec<Value> = f
        .iter()
        .map(|fd| json!({"name": fd.ident.as_ref().map(|i| i.to_string()), "ty": src(&fd.ty).replace(' ', ""),
            "vis": src(&fd.vis), "meta": attrs(&fd.attrs)}))
        .collect();
    Value::Array(v)
}

fn impl_item(i: &ImplItem) -> Value {
    match i {
        ImplItem::Fn(f) => json!({"k": "fn", "sig": sig(&f.sig), "vis": src(&f.vis), "meta": attrs(&f.attrs),
            "body": block(&f.block), "line": line(f.sig.ident.span())}),
        ImplItem::Const(c) => json!({"k": "const", "name": c.ident.to_string(), "ty": src(&c.ty).replace(' ', ""), "expr": expr(&c.expr), "meta": attrs(&c.attrs)}),
        ImplItem::Type(t) => json!({"k": "type", "name": t.ident.to_string(), "ty": src(&t.ty)}),
        _ => raw(i, "implitem"),
    }
}

fn item(i: &Item) -> Value {
    match i {
        Item::Fn(f) => json!({"k": "fn", "sig": sig(&f.sig), "vis": src(&f.vis), "meta": attrs(&f.attrs),
            "body": block(&f.block), "line": line(f.sig.ident.span())}),
        Item::Impl(im) => json!({"k": "impl", "self_ty": src(&im.self_ty).replace(' ', ""),
            "trait": im.trait_.as_ref().map(|(_, p, _)| src(p).replace(' ', "")),
            "generics": src(&im.generics), "meta": attrs(&im.attrs),
            "items": im.items.iter().map(impl_item).collect::<Vec<_>>()}),
        Item::Struct(s) => json!({"k": "structdef", "name": s.ident.to_string(), "meta": attrs(&s.attrs), "fields": fields(&s.fields), "vis": src(&s.vis)}),
        Item::Enum(e) => json!({"k": "enumdef", "name": e.ident.to_string(), "meta": attrs(&e.attrs), "vis": src(&e.vis),
            "variants": e.variants.iter().map(|v| json!({"name": v.ident.to_string(), "fields": fields(&v.fields), "meta": attrs(&v.attrs)})).collect::<Vec<_>>()}),
        Item::Const(c) => json!({"k": "const", "name": c.ident.to_string(), "ty": src(&c.ty).replace(' ', ""), "expr": expr(&c.expr), "meta": attrs(&c.attrs)}),
        Item::Static(c) => json!({"k": "const", "name": c.ident.to_string(), "ty": src(&c.ty).replace(' ', ""), "expr": expr(&c.expr), "meta": attrs(&c.attrs)}),
        Item::Mod(m) => json!({"k": "mod", "name": m.ident.to_string(), "meta": attrs(&m.attrs),
            "items": m.content.as_ref().map(|(_, its)| its.iter().map(item).collect::<Vec<_>>())}),
        Item::Use(u) => json!({"k": "use", "src": src(u)}),
        Item::Trait(t) => json!({"k": "trait", "name": t.ident.to_string(), "meta": attrs(&t.attrs),
            "items": t.items.iter().map(|ti| match ti {
                TraitItem::Fn(f) => json!({"k": "fn", "sig": sig(&f.sig), "meta": attrs(&f.attrs), "body": f.default.as_ref().map(block), "line": line(f.sig.ident.span())}),
                _ => raw(ti, "traititem"),
            }).collect::<Vec<_>>()}),
        Item::Type(t) => json!({"k": "typedef", "name": t.ident.to_string(), "ty": src(&t.ty)}),
        Item::Macro(m) => json!({"k": "itemmacro", "name": path_str(&m.mac.path), "src": m.mac.tokens.to_string()}),
        _ => raw(i, "item"),
    }
}

fn main() {
    let args: Vec<String> = std::env::args().collect();
    if args.len() < 3 {
        eprintln!("usage: mtsym-extract <out.json> <file.rs>...");
        std::process::exit(2);
    }
    let mut out = serde_json::Map::new();
    for p in &args[2..] {
        let text = match std::fs::read_to_string(p) {
            Ok(t) => t,
            Err(e) => {
                eprintln!("cannot read {}: {}", p, e);
                std::process::exit(2);
            }
        };
        match syn::parse_file(&text) {
            Ok(f) => {
                out.insert(p.clone(), json!({"items": f.items.iter().map(item).collect::<Vec<_>>()}));
            }
            Err(e) => {
                out.insert(p.clone(), json!({"parse_error": e.to_string(), "line": e.span().start().line}));
            }
        }
    }
    std::fs::write(&args[1], serde_json::to_string(&Value::Object(out)).unwrap()).expect("write");
}
