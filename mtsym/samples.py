"""Canonical valid / invalid content samples per field type, discovered against the real parsers.
For every field struct type the first candidate that the real `parse` accepts and whose
`to_swift_string` reproduces ":TAG:" + candidate byte for byte is the canonical valid sample; the first
candidate the real parser rejects is the invalid sample. Used only to turn solver models (token
lists) into concrete MT text for replay — no claim rests on the pool itself."""
import os
import sys

sys.path.insert(0, os.path.join(os.path.dirname(os.path.dirname(os.path.abspath(__file__))), "lib"))
from common import replay_batch  # noqa

CANDIDATES = [
    "REF123", "CRED", "SHA", "NORM", "250115", "250115USD1000,00", "USD1000,00", "1000,00", "1,5", "0,9",
    "BANKDEFFXXX", "BANKDEFF", "/12345678\nBANKDEFFXXX", "/12345678\nJOHN DOE\n1 MAIN ST",
    "JOHN DOE\n1 MAIN ST", "1/JOHN DOE\n2/1 MAIN ST\n3/US/NEW YORK", "/12345678\n1/JOHN DOE\n2/1 MAIN ST\n3/US/NEW YORK",
    "/12345678", "/C/12345678", "12345678", "/12345678\nBANKDEFF", "DRLC/12345678\n1/JOHN DOE",
    "/CHGS/USD10,00", "/INS/BANKDEFF", "PAYMENT FOR INVOICE 1", "/REC/INFO", "/ORDERRES/US//INFO",
    "103", "1/1", "1", "00001/001", "12345/123", "1234", "940", "SNDTIME/1200+0100", "2501151200+0100",
    "C250115USD1000,00", "D250115USD1000,00", "2501150115C1000,00NTRFNONREF//BANKREF", "2501150115CR1000,00NTRFNONREF",
    "250115C1000,00NTRFNONREF", "USD1000,", "USD1000,00", "USDC1000,00", "USDD1000,00", "C1,5", "CN1,5", "D0,5",
    "5USD1000,00", "12USD1000,", "BASE", "BASE30ABC", "BASE//REF", "BASE/30/REF", "103\n250115\n1234123456",
    "103\n250115", "S103250115", "R103250115", "ABC", "K90", "SDVA", "HOLD/INFO", "AB", "XYZ", "USD",
    "/8c/1234", "ABCDEFGH", "12345678901", "3/10", "0,5", "1000,", "100,", "USD100,", "250115USD100,",
    "/D/12345678", "//CH123456", "NAME LINE", "LINE1\nLINE2", "ACCT123", "12345678\nBANKDEFFXXX",
    "1/NAME\n2/STREET\n3/US", "103231215", "1032312151234567890", "103\n231215", "/SNDTIME/1414+0200", "CUST/US/12345\n1/NAME", "/1234\n1/NAME\n2/ADDR\n3/US/CITY",
]
INVALID_CANDIDATES = ["", "\x01", "?" * 120 + "\n" * 40, "\n\n\n\n\n\n\n\n\n\n\n\n\n\n\n\n\n\n\n\n\n\n\n\n\n\n\n\n\n\n\n\n\n\n\n\n\n" + "é" * 300]


ALT = {}   # type -> every canonical valid candidate (alternative contents for concretisation)


def discover(struct_types, tags):
    """struct_types: list of field struct type names; tags: {type: tag}. Returns (valid, invalid) dicts."""
    items, index = [], []
    for t in struct_types:
        for c in CANDIDATES:
            items.append({"op": "field", "type": t, "content": c})
            index.append((t, c, True))
        for c in INVALID_CANDIDATES:
            items.append({"op": "field", "type": t, "content": c})
            index.append((t, c, False))
    outs = replay_batch(items, "dev")
    valid, invalid, loose = {}, {}, {}
    ALT.clear()
    for (t, c, is_valid_pool), o in zip(index, outs):
        if is_valid_pool:
            if o.get("ok"):
                tag = tags.get(t)
                if tag is not None and o.get("swift") == ":%s:%s" % (tag, c):
                    ALT.setdefault(t, []).append(c)
            if o.get("ok") and t not in valid:
                tag = tags.get(t)
                if tag is not None and o.get("swift") == ":%s:%s" % (tag, c):
                    valid[t] = c
                elif t not in loose:
                    loose[t] = c
        else:
            if not o.get("ok") and "panic" not in o and t not in invalid:
                invalid[t] = c
    for t, c in loose.items():
        valid.setdefault(t, c)
    return valid, invalid
