"""C05 / C07 at field level: the real `parse` of each single-line field type, executed from source on an arbitrary string,
against the format the library documents for the type (`**Format:** `16x`` in the struct's doc comment, SWIFT notation).

  accept-outside : exists s . parse(s) is Ok  and  s is not in L(documented format)
  panic          : exists s . a slice [a..b] is out of range / an unwrap hits None on a live path of parse(s)

The documented format is read from the doc comment on every run and compiled to a z3 regular expression:
  n digits, a upper-case letters, c upper-case letters and digits, h hex digits, x the SWIFT x character set, z any printable,
  d digits with one decimal comma (at least one digit before it), N!t exactly N, Nt one to N, [..] optional, other characters literal.
Semantic conditions that the notation does not carry (calendar dates, clock times, code lists, currency precision) make the
real language smaller than the regular one, so only the accept-outside direction is asked here (the other directions are
C11 / C06 / the primitive harnesses).
"""
import json
import multiprocessing as mp
import os
import re
import sys
import time
import traceback

HERE = os.path.dirname(os.path.abspath(__file__))
sys.path.insert(0, HERE)
sys.path.insert(0, os.path.join(os.path.dirname(HERE), "lib"))

import z3  # noqa
import layout as layout_mod  # noqa
from structsym import *  # noqa
import structsym  # noqa
from fieldcheck import FieldMachine  # noqa

X_CHARS = "abcdefghijklmnopqrstuvwxyzABCDEFGHIJKLMNOPQRSTUVWXYZ0123456789/-?:().,'+ "


def cls(letter):
    R = z3.Range
    if letter == "n":
        return R("0", "9")
    if letter == "a":
        return R("A", "Z")
    if letter == "c":
        return z3.Union(R("A", "Z"), R("0", "9"))
    if letter == "h":
        return z3.Union(R("A", "F"), R("0", "9"))
    if letter == "x":
        return z3.Union(R("a", "z"), R("A", "Z"), R("0", "9"), *[z3.Re(c) for c in "/-?:().,'+ "])
    if letter == "z":
        return R(" ", "~")
    if letter == "e":
        return z3.Re(" ")
    # classes that only occur in the `tolerated` language of a known finding (never in the documentation)
    if letter == "A":
        return z3.Union(R("A", "Z"), R("a", "z"))
    if letter == "C":
        return z3.Union(R("A", "Z"), R("a", "z"), R("0", "9"))
    if letter == "y":
        return z3.Union(R(" ", "~"), z3.Re("\n"))
    raise ValueError(letter)


class CharMapZ(StrZ):
    """`s.replace(c1, c2)` for single characters (Rust replaces every occurrence): the original string plus the character map"""
    __slots__ = ("orig", "frm", "to")

    def __init__(self, orig, frm, to, machine):
        self.orig, self.frm, self.to = orig, frm, to
        f = z3.Function("replace_%d_%d" % (ord(frm), ord(to)), z3.StringSort(), z3.StringSort())
        machine.constraints.append(z3.Length(f(orig)) == z3.Length(orig))
        super().__init__(f(orig))


class CountOf:
    """`s.chars().filter(class).count()`: compared with constants through regular expressions"""
    __slots__ = ("s", "cls")

    def __init__(self, s, cls):
        self.s, self.cls = s, cls

    def at_least(self, k):
        if k <= 0:
            return True
        anyc = z3.Full(z3.ReSort(z3.StringSort()))
        parts = []
        for _ in range(k):
            parts += [anyc, self.cls]
        return z3.InRe(self.s, z3.Concat(*(parts + [anyc])))


class CharsFilter:
    __slots__ = ("s", "cls")

    def __init__(self, s, cls):
        self.s, self.cls = s, cls


def f64_grammar(dot):
    """The strings `str::parse::<f64>` accepts (std documentation of `impl FromStr for f64`), with `dot` as the decimal point:
       [+-]? ( inf | infinity | nan | Number ),  Number = ( Digit+ | Digit+ '.' Digit* | Digit* '.' Digit+ ) Exp?,  Exp = [eE] [+-]? Digit+
       (inf / infinity / nan in any letter case)"""
    D = z3.Range("0", "9")
    ci = lambda w: z3.Concat(*[z3.Union(z3.Re(c.lower()), z3.Re(c.upper())) for c in w])
    sign = z3.Option(z3.Union(z3.Re("+"), z3.Re("-")))
    num = z3.Union(z3.Plus(D), z3.Concat(z3.Plus(D), dot, z3.Star(D)), z3.Concat(z3.Star(D), dot, z3.Plus(D)))
    exp = z3.Option(z3.Concat(z3.Union(z3.Re("e"), z3.Re("E")), sign, z3.Plus(D)))
    return z3.Concat(sign, z3.Union(ci("inf"), ci("infinity"), ci("nan"), z3.Concat(num, exp)))


class FmtMachine(FieldMachine):
    """parse_amount is executed from source here (str::replace of one character and str::parse::<f64> by their documented
    contracts); the numeric value stays uninterpreted"""

    def invoke(self, m, arg_exprs, fr, guard, self_ty, turbofish=None, recv=None, recv_expr=None):
        name = m[0]["sig"]["name"]
        if m[2] is None and name in ("parse_amount", "parse_amount_with_currency"):
            return StructMachine.invoke(self, m, arg_exprs, fr, guard, self_ty, turbofish, recv, recv_expr)
        return super().invoke(m, arg_exprs, fr, guard, self_ty, turbofish, recv, recv_expr)

    def builtin_method(self, recv, meth, args, e, fr, guard):
        if isinstance(recv, StrZ) and not isinstance(recv, CharMapZ) and meth == "replace" and len(args) == 2 \
                and all(isinstance(a, str) and len(a) == 1 for a in args):
            return CharMapZ(recv.s, args[0], args[1], self)
        if isinstance(recv, CharMapZ) and meth == "parse" and "f64" in "".join(e.get("turbofish") or []):
            dot = z3.Union(z3.Re(recv.frm), z3.Re(recv.to)) if recv.to == "." else z3.Re(".")
            if recv.to != "." and recv.frm == ".":
                raise Unsupported("replace('.', ..) before parse::<f64>")
            if not hasattr(self, "_f64_val"):
                self._f64_val = z3.Function("f64_value", z3.StringSort(), z3.Float64())
            return Res(z3.InRe(recv.orig, f64_grammar(dot)), FPV(self._f64_val(recv.orig)), Opaque("ParseFloatError"))
        if isinstance(recv, StrZ) and meth == "parse" and "f64" in "".join(e.get("turbofish") or []):
            if not hasattr(self, "_f64_val"):
                self._f64_val = z3.Function("f64_value", z3.StringSort(), z3.Float64())
            return Res(z3.InRe(recv.s, f64_grammar(z3.Re("."))), FPV(self._f64_val(recv.s)), Opaque("ParseFloatError"))
        if isinstance(recv, CharsV) and meth == "filter" and args and isinstance(args[0], Closure) and isinstance(recv.start, int) and recv.start == 0:
            cl = args[0]
            pname = cl.params[0]
            while pname["k"] in ("pref", "ptype"):
                pname = pname["pat"]
            c = char_class(self, cl.body, pname.get("name"), cl.frame) if pname["k"] == "pident" else None
            if c is None:
                raise Unsupported("character filter closure (line %s)" % e.get("line"))
            return CharsFilter(recv.s, c)
        if isinstance(recv, CharsFilter) and meth == "count":
            return CountOf(recv.s, recv.cls)
        return super().builtin_method(recv, meth, args, e, fr, guard)

    def binop(self, e, op, a, b, fr, guard):
        if isinstance(a, CountOf) and isinstance(b, int):
            if op == ">":
                return a.at_least(b + 1)
            if op == ">=":
                return a.at_least(b)
            if op == "<":
                return Not(a.at_least(b))
            if op == "<=":
                return Not(a.at_least(b + 1))
            if op == "==":
                return And(a.at_least(b), Not(a.at_least(b + 1)))
            if op == "!=":
                return Not(And(a.at_least(b), Not(a.at_least(b + 1))))
        return super().binop(e, op, a, b, fr, guard)


def compile_format(fmt):
    """SWIFT format notation (single line) -> z3 regex; raises ValueError on anything it does not understand"""
    toks = re.findall(r"\d+[!~]?[nacxdhzeACyD]|\[|\]|.", fmt)
    clock = z3.Concat(z3.Union(z3.Concat(z3.Range("0", "1"), z3.Range("0", "9")), z3.Concat(z3.Re("2"), z3.Range("0", "3"))),
                      z3.Range("0", "5"), z3.Range("0", "9"))
    pos = [0]

    def seq(until=None):
        parts = []
        while pos[0] < len(toks):
            t = toks[pos[0]]
            if t == "]":
                if until != "]":
                    raise ValueError("unbalanced ]")
                pos[0] += 1
                return parts
            pos[0] += 1
            if t == "[":
                inner = seq("]")
                parts.append(z3.Option(cat(inner)))
                continue
            m = re.match(r"(\d+)([!~]?)([nacxdhzeACyD])$", t)
            if m:
                n, bang, letter = int(m.group(1)), m.group(2), m.group(3)
                lo = n if bang == "!" else 0 if bang == "~" else 1
                if letter == "d":
                    body = z3.Concat(z3.Plus(z3.Range("0", "9")), z3.Re(","), z3.Star(z3.Range("0", "9")))
                    anyc = z3.Union(z3.Range("0", "9"), z3.Re(","))
                    parts.append(z3.Intersect(body, z3.Loop(anyc, lo, n)))
                elif letter == "D":
                    # tolerated amounts: digits with at most one separator (comma or point), at least one digit, any length
                    D = z3.Range("0", "9")
                    sep = z3.Union(z3.Re(","), z3.Re("."))
                    parts.append(z3.Union(z3.Plus(D), z3.Concat(z3.Plus(D), sep, z3.Star(D)), z3.Concat(z3.Star(D), sep, z3.Plus(D))))
                else:
                    parts.append(z3.Loop(cls(letter), lo, n))
                continue
            if t == "T":            # HHMM (refined formats only)
                parts.append(clock)
                continue
            if t == "S":            # + or -
                parts.append(z3.Union(z3.Re("+"), z3.Re("-")))
                continue
            if t in "*+ " or (t.isalpha() and t.islower()):
                raise ValueError("token %r" % t)
            parts.append(z3.Re(t))
        if until is not None:
            raise ValueError("unbalanced [")
        return parts

    def cat(parts):
        if not parts:
            return z3.Re("")
        return parts[0] if len(parts) == 1 else z3.Concat(*parts)
    return cat(seq())


def documented_format(sd):
    doc = sd["meta"].get("doc", []) if isinstance(sd.get("meta"), dict) else []
    for line in doc:
        if "Format:" in line:
            m = re.search(r"Format:\**\s*`([^`]+)`", line)
            if m:
                rest = line[m.end():]
                if re.match(r"\s*\+", rest):
                    return m.group(1).strip() + " + ..."       # composite, several lines
                return m.group(1).strip()
            m = re.search(r"Format:\**\s*(\S+)", line)
            if m:
                return m.group(1).strip()
    return None


# Components the documentation describes in words ("Time in HHMM format (24-hour)", "UTC offset sign (+ or -)", "UTC offset in
# HHMM format"): the documented format with those components spelt out (T = HHMM clock value, S = sign)
REFINED = {"Field13C": ("/8c/4!n1!x4!n", "/8c/TST"), "Field13D": ("6!n4!n1!x4!n", "6!nTST")}

# the field types this check decides (each query answered within the time limit when the list was drawn up); the others are
# reported as outside the claim: multi-line formats, parsers using str::split / lines / char_indices, and types on which the
# regular-expression queries are not answered in time
DECIDED = ["Field12", "Field13C", "Field13D", "Field19", "Field20", "Field21F", "Field21NoOption", "Field21R", "Field23", "Field23B",
           "Field25A", "Field26T", "Field30", "Field32B", "Field33B", "Field52C", "Field56C", "Field57C", "Field60F", "Field62F",
           "Field64", "Field65", "Field71A", "Field71F", "Field71G", "Field77T"]


# types whose format query is not answered in time: only the panic obligations are asked
PANIC_ONLY = ["Field11", "Field11R", "Field11S", "Field21C", "Field21D", "Field21E", "Field23E", "Field25NoOption", "Field32A", "Field32C",
              "Field32D", "Field34F", "Field61"]


# types that only get the non-ASCII panic query (their documented format is that of the F variant / not single-line)
BYTES_ONLY = ["Field60M", "Field62M"]


def check_type(prog, ty, tag, known, timeout_ms=30000):
    from common import replay_batch
    sd = prog.structs.get(ty)
    fmt = documented_format(sd) if sd else None
    if ty in REFINED and fmt == REFINED[ty][0]:
        fmt = REFINED[ty][1]
    base = {"type": ty, "format": fmt}
    if fmt is None:
        return [dict(base, query="documented format", verdict="skipped", detail="no `Format:` line in the doc comment")]
    try:
        rx = compile_format(fmt)
    except ValueError as e:
        return [dict(base, query="documented format %s" % fmt, verdict="skipped", detail="multi-line / composite notation (%s)" % e)]
    t0 = time.time()
    try:
        m = FmtMachine(prog, 1)
        m.obligations = []
        parse = prog.fns[(ty, "parse", True)][0]
        sv = z3.String("in_flat")
        # printable ASCII and newline: byte offsets and character offsets coincide
        m.constraints += [z3.Length(sv) <= 60, z3.InRe(sv, z3.Star(z3.Union(z3.Range(" ", "~"), z3.Re("\n"))))]
        r1, _ = m.call_fn(parse, [StrZ(sv)], True, self_ty=ty)
        if not isinstance(r1, Res):
            raise Unsupported("parse did not return a Result")
    except Unsupported as e:
        return [dict(base, query="encode parse", verdict="not-encoded", detail=str(e)[:200])]
    except Exception:
        return [dict(base, query="encode parse", verdict="error", detail=traceback.format_exc()[-600:])]
    build_s = round(time.time() - t0, 2)
    res = []
    outside_doc = z3.Not(z3.InRe(sv, rx))

    def solve(name, extra, judge, kf):
        s = z3.Solver()
        s.set("timeout", timeout_ms)
        s.add(*m.constraints)
        s.add(*[B(x) for x in extra if not (x is outside_doc and any(k.get("type") == ty and k.get("kf") == kf and k.get("tolerated") for k in known))])
        # behaviour already recorded as a known finding is excluded, so that anything else is still reported
        tolerated = [k for k in known if k.get("type") == ty and k.get("kf") == kf and k.get("tolerated")]
        if tolerated and kf == "accepts-outside-format":
            # one membership in the union (documented or tolerated) instead of several negated memberships
            extra = [x for x in extra if x is not outside_doc] + [z3.Not(z3.InRe(sv, z3.Union(rx, *[compile_format(k["tolerated"]) for k in tolerated])))]
            s.add(*[B(x) for x in extra[-1:]])
        t1 = time.time()
        r = s.check()
        if r == z3.unknown and kf == "accepts-outside-format":
            # not answered for strings of arbitrary length: probe the lengths just outside the documented bounds
            longest = sum(int(n) for n in re.findall(r"(\d+)[!~]?[a-zA-Z]", fmt)) + len(re.sub(r"\d+[!~]?[a-zA-Z]|\[|\]", "", fmt))
            order = [longest + 1, longest + 2, 0, 1] + [L for L in range(2, 61) if L not in (longest + 1, longest + 2)]
            verdicts = []
            for L in order:          # the input is at most 60 characters long: one query per length decides the question
                s.push()
                s.add(z3.Length(sv) == L)
                r2 = s.check()
                verdicts.append(r2)
                if r2 == z3.sat:
                    r = r2
                    break
                s.pop()
            if r != z3.sat and all(v == z3.unsat for v in verdicts):
                r = z3.unsat
        rec = dict(base, query=name, verdict=str(r), time_s=round(time.time() - t1, 2), build_s=build_s, kf=kf, tolerated=[k["key"] for k in tolerated])
        if r == z3.sat:
            text = structsym._zstr(s.model().eval(sv, model_completion=True))
            real = replay_batch([{"op": "field", "type": ty, "content": text}], "dev")[0]
            why = judge(text, real)
            rec["witness"] = {"type": ty, "content": text, "real": {k: real.get(k) for k in ("ok", "panic", "display", "swift")}, "why": why}
            if not why:
                rec["verdict"] = "sat-not-reproduced"
        res.append(rec)

    def judge_accept(text, real):
        if real.get("ok"):
            return "%s accepts %r, which is not of the documented format %s" % (ty, text, fmt)
        return None

    def judge_panic(text, real):
        if real.get("panic"):
            return "%s::parse(%r) panics: %s" % (ty, text, str(real.get("panic"))[:200])
        return None
    if ty not in PANIC_ONLY:
        solve("accepted content has the documented format %s" % fmt, [r1.ok, outside_doc], judge_accept, "accepts-outside-format")
    obs = [(g, c, w) for g, c, w in m.obligations]
    if obs:
        solve("no panic in parse (%d slice / unwrap obligations)" % len(obs), [Or(*[And(g, Not(c)) for g, c, w in obs])], judge_panic, "panic")
        if res[-1]["verdict"] == "unknown":
            # one query per obligation (smaller formulas); the combined verdict is the worst of them
            res.pop()
            n0 = len(res)
            for k, (g, c, w) in enumerate(obs):
                solve("no panic in parse: obligation %d of %d, %s" % (k + 1, len(obs), w), [And(g, Not(c))], judge_panic, "panic")
                if res[-1]["verdict"] == "sat":
                    break
            verdicts = [r["verdict"] for r in res[n0:]]
            if "sat" not in verdicts and all(v == "unsat" for v in verdicts):
                del res[n0:]
                res.append(dict(base, query="no panic in parse (%d slice / unwrap obligations, one query each)" % len(obs), verdict="unsat",
                                time_s=round(time.time() - t0, 2), build_s=build_s))
    else:
        res.append(dict(base, query="no panic in parse (no slice / unwrap on symbolic data)", verdict="unsat", time_s=0, build_s=build_s))
    # tolerated languages must still be accepted languages (a stale known finding is reported, not silently kept)
    return res


def check_type_bytes(prog, ty, tag, timeout_ms=30000, maxlen=24):
    """non-ASCII input: one z3 character per byte of a valid UTF-8 text; every slice must be in range AND on a character boundary.
    Operations that count characters (chars().nth / count) see bytes in this mode, so a model is only reported when the real parser
    panics on the decoded text."""
    from common import replay_batch
    base = {"type": ty, "format": None}
    t0 = time.time()
    try:
        m = FmtMachine(prog, 1)
        m.obligations = []
        m.byte_mode = True
        parse = prog.fns[(ty, "parse", True)][0]
        sv = z3.String("in_bytes")
        m.constraints += [z3.Length(sv) <= maxlen, z3.InRe(sv, structsym.utf8_regex())]
        r1, _ = m.call_fn(parse, [StrZ(sv)], True, self_ty=ty)
    except Unsupported as e:
        return [dict(base, query="no panic in parse on non-ASCII text", verdict="not-encoded", detail=str(e)[:200])]
    except Exception:
        return [dict(base, query="no panic in parse on non-ASCII text", verdict="error", detail=traceback.format_exc()[-600:])]
    obs = [(g, c, w) for g, c, w in m.obligations if "boundary" in w]
    name = "no panic in parse on UTF-8 text of at most %d bytes (%d character-boundary obligations)" % (maxlen, len(obs))
    if not obs:
        return [dict(base, query=name, verdict="unsat", time_s=0)]
    res = []
    for k, (g, c, w) in enumerate(obs):
        s = z3.Solver()
        s.set("timeout", timeout_ms)
        s.add(*m.constraints)
        s.add(B(And(g, Not(c))))
        tried = 0
        verdict = None
        while True:
            r = s.check()
            if r != z3.sat:
                verdict = str(r) if tried == 0 or r != z3.unsat else "unsat"
                break
            raw = structsym._zstr(s.model().eval(sv, model_completion=True))
            try:
                text = bytes(ord(ch) for ch in raw).decode("utf-8")
            except Exception:
                text = None
            real = replay_batch([{"op": "field", "type": ty, "content": text}], "dev")[0] if text is not None else {}
            if real.get("panic"):
                res.append(dict(base, query=name, verdict="sat", kf="panic", time_s=round(time.time() - t0, 2),
                                witness={"type": ty, "content": text, "real": {"panic": real.get("panic")},
                                         "why": "%s::parse(%r) panics: %s" % (ty, text, str(real.get("panic"))[:200])}))
                return res
            tried += 1
            if tried >= 6:
                # byte-level artefact (character-counting operations): not a panic of the real parser
                verdict = "unsat"
                break
            s.add(sv != z3.StringVal(raw))
        if verdict != "unsat":
            res.append(dict(base, query=name + ": obligation %d" % (k + 1), verdict=verdict, kf="panic", time_s=round(time.time() - t0, 2)))
            return res
    return [dict(base, query=name, verdict="unsat", time_s=round(time.time() - t0, 2))]


def check_amount(prog, timeout_ms=30000):
    """C06: every text parse_amount accepts is a decimal written with digits and a single separator"""
    from common import replay_batch
    fn = prog.free.get("parse_amount")
    base = {"type": "parse_amount", "format": "digits with one optional separator"}
    if fn is None:
        return [dict(base, query="amount language", verdict="not-encoded", detail="fields::swift_utils::parse_amount not found")]
    try:
        m = FmtMachine(prog, 1)
        sv = z3.String("amount_in")
        m.constraints += [z3.Length(sv) <= 40, z3.InRe(sv, z3.Star(z3.Union(z3.Range(" ", "~"), z3.Re("\n"))))]
        r1, _ = StructMachine.call_fn(m, fn[0], [StrZ(sv)], True)
        if not isinstance(r1, Res):
            raise Unsupported("parse_amount did not return a Result")
    except Unsupported as e:
        return [dict(base, query="amount language", verdict="not-encoded", detail=str(e)[:200])]
    D = z3.Range("0", "9")
    sep = z3.Union(z3.Re(","), z3.Re("."))
    lang = z3.Union(z3.Plus(D), z3.Concat(z3.Plus(D), sep, z3.Star(D)), z3.Concat(z3.Star(D), sep, z3.Plus(D)))
    s = z3.Solver()
    s.set("timeout", timeout_ms)
    s.add(*m.constraints)
    s.add(B(r1.ok), z3.Not(z3.InRe(sv, lang)))
    t1 = time.time()
    r = s.check()
    rec = dict(base, query="every accepted amount text is digits with at most one decimal separator (no sign, exponent, inf, NaN, blank)",
               verdict=str(r), time_s=round(time.time() - t1, 2), kf="amount-language")
    if r == z3.sat:
        text = structsym._zstr(s.model().eval(sv, model_completion=True))
        real = replay_batch([{"op": "field", "type": "Field32B", "content": "USD" + text}], "dev")[0]
        rec["witness"] = {"type": "Field32B", "content": "USD" + text, "real": {k: real.get(k) for k in ("ok", "swift", "display")}}
        if real.get("ok"):
            rec["witness"]["why"] = "the amount text %r is accepted (Field32B 'USD%s' is written back as %r)" % (text, text, real.get("swift"))
        else:
            rec["verdict"] = "sat-not-reproduced"
    return [rec]


def _worker(args):
    ty, tag, known = args
    try:
        prog = Program(layout_mod.extract_ast())
        out = check_type(prog, ty, tag, known) if ty not in BYTES_ONLY else []
        for r in check_type_bytes(prog, ty, tag):
            r["type"] = ty
            out.append(r)
        return out
    except Exception:
        return [{"type": ty, "query": "format", "verdict": "error", "detail": traceback.format_exc()[-1200:]}]


def run(jobs=14, only=None, known=None):
    prog = Program(layout_mod.extract_ast())
    tags, _bad = layout_mod.field_tags(prog)
    types = sorted(t for t in tags if (t in only if only else t in DECIDED + PANIC_ONLY + BYTES_ONLY) and t in prog.structs)
    with mp.Pool(min(jobs, max(1, len(types)))) as pool:
        outs = pool.map(_worker, [(t, tags[t], known or []) for t in types], chunksize=1)
    res = [r for o in outs for r in o]
    if not only:
        res += check_amount(prog)
    return res


if __name__ == "__main__":
    for r in run(only=sys.argv[1:]):
        print("%-18s %-18s %6.2fs %-60s %s" % (r["type"], r["verdict"], r.get("time_s", 0), r["query"][:60],
                                               json.dumps((r.get("witness") or {}).get("why") or r.get("detail") or "")[:260]))
