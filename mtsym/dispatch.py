"""C12: message-type dispatch tables, extracted from the current source and checked with the solver
over all 1000 three-digit type codes."""
import json
import os
import re
import sys
import time

HERE = os.path.dirname(os.path.abspath(__file__))
sys.path.insert(0, HERE)
sys.path.insert(0, os.path.join(os.path.dirname(HERE), "lib"))

import z3  # noqa
import layout as layout_mod  # noqa
from interp import Program, Unsupported  # noqa


def idents(v, acc):
    """MTnnn identifiers mentioned anywhere in an AST subtree (paths, turbofish, macro sources)"""
    if isinstance(v, dict):
        for k in ("path", "src", "method", "ty", "qself"):
            x = v.get(k)
            if isinstance(x, str):
                acc.update(re.findall(r"(?<![A-Za-z0-9_])(?:MT|mt|into_mt|Mt)(\d{3})(?![0-9])", x))
        for k in ("generics", "turbofish"):
            for x in v.get(k) or []:
                if isinstance(x, str):
                    acc.update(re.findall(r"MT(\d{3})", x))
        for x in v.values():
            idents(x, acc)
    elif isinstance(v, list):
        for x in v:
            idents(x, acc)


def find_tables(v, path, out):
    """match expressions whose arms are 3-digit string literals (or ParsedSwiftMessage::MTnnn variants)"""
    if isinstance(v, dict):
        if v.get("k") == "fn" and "sig" in v:
            path = path + [v["sig"]["name"]]
        if v.get("k") == "match":
            lit_arms, var_arms, default = {}, {}, None
            for arm in v["arms"]:
                pats = arm["pat"]["cases"] if arm["pat"]["k"] == "por" else [arm["pat"]]
                for p in pats:
                    if p["k"] == "plit" and p["lit"].get("k") == "str" and re.fullmatch(r"\d{3}", p["lit"]["v"]):
                        lit_arms[p["lit"]["v"]] = arm["body"]
                    elif p["k"] == "ptuplestruct" and re.search(r"MT\d{3}$", p["path"]):
                        var_arms[p["path"].split("::")[-1][2:]] = arm["body"]
                    elif p["k"] in ("pwild", "pident"):
                        default = arm["body"]
            if len(lit_arms) >= 5:
                out.append({"where": "::".join(path), "line": v.get("line"), "kind": "by-code", "arms": lit_arms, "default": default})
            elif len(var_arms) >= 5:
                out.append({"where": "::".join(path), "line": v.get("line"), "kind": "by-variant", "arms": var_arms, "default": default})
        for x in v.values():
            find_tables(x, path, out)
    elif isinstance(v, list):
        for x in v:
            find_tables(x, path, out)


def literal_of(body):
    """the 3-digit literal a by-variant arm evaluates to (message_type()), if it is one"""
    if isinstance(body, dict) and body.get("k") == "lit" and body["lit"].get("k") == "str":
        return body["lit"]["v"]
    return None


def run():
    prog = Program(layout_mod.extract_ast())
    res = []
    # canonical: type -> code from each type's own message_type()
    canon = {}
    for ty in layout_mod.message_types(prog):
        fn = prog.fns.get((ty, "message_type", True))
        lit = None
        if fn:
            st = fn[0]["body"]["stmts"]
            if len(st) == 1 and st[0]["k"] == "sexpr":
                lit = literal_of(st[0]["expr"])
        if lit is None or ty[2:] != lit:
            res.append({"query": "message_type()-of-%s" % ty, "verdict": "sat", "time_s": 0,
                        "witness": {"why": "%s::message_type() is %r" % (ty, lit)}})
        canon[ty] = lit
    codes = {c: t for t, c in canon.items() if c}
    c = z3.Int("code")
    canon_f = z3.IntVal(-1)
    for code in sorted(codes):
        canon_f = z3.If(c == int(code), z3.IntVal(int(code)), canon_f)
    tables = []
    for f, v in prog.ast.items():
        if any(f.endswith(x) for x in ("parser/swift_parser.rs", "parsed_message.rs", "plugin/parse.rs", "plugin/publish.rs",
                                       "plugin/validate.rs", "plugin/generate.rs")):
            found = []
            find_tables(v["items"], [os.path.basename(f)], found)
            tables += found
    expected_sites = {"swift_parser.rs::parse_message_auto": 0, "parsed_message.rs": 0, "parse.rs": 0, "publish.rs": 0, "validate.rs": 0}
    for t in tables:
        for k in expected_sites:
            if t["where"].startswith(k) or k in t["where"]:
                expected_sites[k] += 1
        # table function: code -> type the arm works on (-1 = unsupported / other)
        tf = z3.IntVal(-1)
        problems = []
        for code, body in sorted(t["arms"].items()):
            ids = set()
            idents(body, ids)
            lit = literal_of(body)
            if t["kind"] == "by-variant" and lit is not None:
                ids = {lit}
            if t["kind"] == "by-variant" and not ids:
                ids = {code}      # arm delegates to the bound variable of its own variant (e.g. mt103.validate())
            if len(ids) != 1:
                problems.append("arm %s of %s mentions types %s" % (code, t["where"], sorted(ids)))
                target = -2
            else:
                target = int(next(iter(ids)))
            tf = z3.If(c == int(code), z3.IntVal(target), tf)
        s = z3.Solver()
        s.add(c >= 0, c <= 999)
        s.add(tf != canon_f)
        t0 = time.time()
        r = s.check()
        rec = {"query": "table %s (line %s, %s, %d arms): every code 000-999 routed to its own type" % (t["where"], t["line"], t["kind"], len(t["arms"])),
               "verdict": str(r), "time_s": round(time.time() - t0, 3)}
        if r == z3.sat:
            code = s.model()[c].as_long()
            rec["witness"] = {"code": "%03d" % code, "why": "code %03d is handled as %s by %s but belongs to %s; %s" % (
                code, s.model().eval(tf), t["where"], s.model().eval(canon_f), "; ".join(problems))}
        res.append(rec)
        # default arm must report the type as unsupported (by-code tables)
        if t["kind"] == "by-code":
            dflt = json.dumps(t["default"]) if t["default"] is not None else ""
            ok = ("UnsupportedMessageType" in dflt) or ("Unsupported" in dflt) or ("unsupported" in dflt.lower())
            res.append({"query": "table %s: unsupported codes fall to an 'unsupported message type' error" % t["where"],
                        "verdict": "unsat" if ok else "sat", "time_s": 0,
                        "witness": None if ok else {"why": "default arm of %s does not report an unsupported type: %s" % (t["where"], dflt[:200])}})
    for k, n in expected_sites.items():
        if n == 0:
            res.append({"query": "dispatch table in %s" % k, "verdict": "not-encoded", "time_s": 0, "detail": "no dispatch table found where one is expected"})
    # typed parse: the type check precedes parse_from_block4
    pm = prog.fns.get(("SwiftParser", "parse_message", False))
    ok = False
    if pm:
        src = json.dumps(pm[0]["body"])
        i = src.find("T::message_type")
        j = src.find("T::parse_from_block4")
        k = src.find("T03")
        ok = 0 <= i < j and 0 <= k < j
    res.append({"query": "typed parse compares the header's type with T::message_type() (T03) before parsing block 4",
                "verdict": "unsat" if ok else "sat", "time_s": 0, "witness": None if ok else {"why": "type check missing or after parse_from_block4"}})
    return res


if __name__ == "__main__":
    for r in run():
        print("%-10s %6.3fs %s %s" % (r["verdict"], r.get("time_s", 0), r["query"], json.dumps(r.get("witness") or r.get("detail") or "")[:300]))
