"""C13 (wrappers): the message-level validity flag, the auto-detected wrapper's result and the validate plugin's error list
agree with validate_network_rules(false) of the message body.

The three wrappers (SwiftMessage::validate, ParsedSwiftMessage::validate, plugin::Validate::validate_network_rules) are executed
from their current source. The body's own rule function is an uninterpreted symbol here: validate_network_rules(false) returns
an arbitrary list of n <= K errors with arbitrary codes (what it really returns is the subject of rulecheck.py), and the
queries ask whether a wrapper can report anything other than that list. A satisfiable query names a message type whose wrapper
arm drops, replaces or reorders the body's errors; it is confirmed on a real message of that type that has at least one
network-rule error (taken from the rule engine's own solver model, or from specs for the two types whose rules are not
encoded), by running the typed API, the auto-detecting parser and the plugin on it.
"""
import json
import os
import sys
import time

HERE = os.path.dirname(os.path.abspath(__file__))
sys.path.insert(0, HERE)
sys.path.insert(0, os.path.join(os.path.dirname(HERE), "lib"))
sys.path.insert(0, os.path.join(os.path.dirname(HERE), "specs"))

import z3  # noqa
import layout as layout_mod  # noqa
from structsym import *  # noqa
import structsym  # noqa


class BodyTok:
    """the `fields` of a SwiftMessage<T>: opaque, except that it can be validated"""
    __slots__ = ("ty", "n", "codes")

    def __init__(self, ty, n, codes):
        self.ty, self.n, self.codes = ty, n, codes


class ErrTok:
    __slots__ = ("ty", "k", "code")

    def __init__(self, ty, k, code):
        self.ty, self.k, self.code = ty, k, code


class WrapMachine(StructMachine):
    def builtin_method(self, recv, meth, args, e, fr, guard):
        if isinstance(recv, BodyTok):
            if meth == "validate_network_rules":
                flag = args[0]
                if not isinstance(flag, bool):
                    raise Unsupported("validate_network_rules with a computed flag")
                items = [(recv.n > k, ErrTok(recv.ty, k, recv.codes[k])) for k in range(len(recv.codes))]
                return VecV(tuple(items[:1] if flag else items))
            raise Unsupported("method .%s on the message body" % meth)
        if isinstance(recv, StructV) and recv.name == "json":
            if meth in ("as_object_mut", "as_object"):
                return Opt(True, recv)
            if meth == "insert" and isinstance(args[0], str):
                nf = dict(recv.fields)
                nf[args[0]] = args[1]
                tgt = e["recv"]
                while tgt.get("k") == "mcall" and tgt["method"] in ("unwrap", "as_object_mut", "expect"):
                    tgt = tgt["recv"]
                self.assign(tgt, StructV("json", nf), fr, guard)
                return Opt(False, None)
        if isinstance(recv, Opaque) and recv.what.startswith("parse-error") and meth in ("to_string",):
            return Opaque("error text")
        if isinstance(recv, ErrTok):
            if meth in ("error_code", "code"):
                return StrZ(recv.code)
            if meth in ("to_string", "clone", "message"):
                return Opaque("error text")
        return super().builtin_method(recv, meth, args, e, fr, guard)

    def ev_call(self, e, fr, guard):
        f = e["func"]
        if f["k"] == "path" and f["path"].endswith("SwiftParser::parse_auto") and getattr(self, "parse_auto_result", None) is not None:
            return self.parse_auto_result
        return super().ev_call(e, fr, guard)

    def ev_macro(self, e, fr, guard):
        name = e["name"].split("::")[-1]
        if name == "json" and e.get("args") is None and (e.get("src") or "").strip().startswith("{"):
            # json!({ "key": ident, ... }): an object whose members are the named local values
            body = e["src"].strip()[1:-1]
            fields = {}
            for part in body.split(" , "):
                part = part.strip().rstrip(",").strip()
                if not part:
                    continue
                key, _, val = part.partition(" : ")
                key, val = key.strip().strip('"'), val.strip()
                fields[key] = fr.vars[val] if val in fr.vars else Opaque("json:" + val)
            return StructV("json", fields)
        if name == "json":
            args = e.get("args") or []
            return self.eval(args[0], fr, guard) if len(args) == 1 else Opaque("json")
        if name == "format":
            args = e.get("args") or []
            vals = [self.eval(a, fr, guard) for a in args[1:]]
            if any(isinstance(v, (ErrTok, Opaque)) for v in vals):
                return Opaque("error text")
        return super().ev_macro(e, fr, guard)


def err_list(val):
    """[(guard, identity term)] of the errors a wrapper returned: ErrTok identity (k) or the rule_name string"""
    out = []
    if not isinstance(val, VecV):
        raise Unsupported("wrapper result is not a list: %r" % (val,))
    for g, v in val.items:
        for ga, x in alt_of(v):
            if isinstance(x, ErrTok):
                out.append((And(g, ga), x.code))
            elif isinstance(x, EnumV) and isinstance(x.payload, dict) and "rule_name" in x.payload:
                out.append((And(g, ga), to_strz(x.payload["rule_name"])))
            elif isinstance(x, EnumV) and isinstance(x.payload, list) and x.payload and isinstance(x.payload[0], StructV) \
                    and "rule_name" in x.payload[0].fields:
                out.append((And(g, ga), to_strz(x.payload[0].fields["rule_name"])))
            else:
                raise Unsupported("wrapper error value %r" % (x,))
    return out


def same_list(m, got, body, K):
    """formula: `got` (list of (guard, code term)) is NOT the body's list (n errors with codes body.codes, in order)"""
    bad = []
    cnt = sum([If(g, 1, 0) for g, _ in got]) if got else 0
    bad.append(cnt != body.n)
    for r in range(K):
        rank = 0
        pres, code = False, z3.StringVal("<none>")
        for g, c in got:
            hit = And(g, rank == r) if is_sym(rank) else (g if rank == r else False)
            pres = Or(pres, hit)
            code = z3.If(B(hit), c, code)
            rank = rank + If(g, 1, 0)
        bad.append(And(body.n > r, Or(Not(pres), code != body.codes[r])))
    return Or(*bad)


# real messages with one network-rule error, for the types whose rules the rule engine does not encode
HAND_WITNESS = {
    "MT192": ":20:CANCEL0002\r\n:21:ORIGREF0002\r\n:11S:103250101",                      # C25: neither 79 nor a copy of fields
    "MT200": ":20:TRF0001\r\n:32A:250101USD1000,00\r\n:57A:DEUTDEFFXXX\r\n:72:/INS/\r\n//CONT",  # candidate only; checked at run time
}


def error_bearing_message(prog, ty, K):
    """block-4 text of a real message of type `ty` for which validate_network_rules(false) is non-empty (or None)"""
    from common import replay_batch
    import rulecheck
    cands = []
    try:
        m, inst, out = rulecheck.build(prog, ty, K)
        full = out[False]
        if full:
            s = z3.Solver()
            s.set("timeout", 60000)
            s.add(*m.constraints)
            s.add(B(Or(*[g for g, _ in full])))
            for _ in range(4):
                if s.check() != z3.sat:
                    break
                model = s.model()
                _, js = structsym.to_json(prog, model, inst)
                o = replay_batch([{"op": "validate_json", "type": ty, "json": js}], "dev")[0]
                if o.get("ok") and o.get("codes") and o.get("mt"):
                    cands.append(o["mt"])
                    break
                blk = [t != model.eval(t, model_completion=True) for p, k, t in m.leaves if k in ("present", "len") or k.startswith("variant:")]
                s.add(z3.Or(*blk) if blk else False)
    except Unsupported:
        pass
    if ty in HAND_WITNESS:
        cands.append(HAND_WITNESS[ty])
    return cands


def real_check(ty, block4):
    """run the typed API, the auto-detecting wrapper and the plugin on a full message; returns (difference or None, detail)"""
    from common import replay_batch
    body = block4.strip()
    if body.startswith("{4:"):
        text_b4 = body
    else:
        body = body.rstrip("-").rstrip()
        text_b4 = "{4:\r\n" + body + "\r\n-}"
    text = "{1:F01BANKDEFFAXXX0000000000}{2:I%sBANKDEFFAXXXN}%s" % (ty[2:], text_b4)
    typed, auto, plug = replay_batch([{"op": "validate", "type": ty, "text": body}, {"op": "auto", "text": text},
                                      {"op": "plugin_validate", "text": text}], "dev")
    detail = {"text": text, "typed": typed, "auto": auto, "plugin": {k: plug.get(k) for k in ("ok", "valid", "errors", "error")}}
    if not typed.get("ok") or not typed.get("codes"):
        return None, detail, False
    n = len(typed["codes"])
    diffs = []
    if not auto.get("ok") or auto.get("is_valid") is not False or auto.get("n_errors") != n:
        diffs.append("auto-detected wrapper reports is_valid=%s with %s errors" % (auto.get("is_valid"), auto.get("n_errors")))
    if not plug.get("ok") or plug.get("valid") is not False or len(plug.get("errors") or []) != n:
        diffs.append("plugin reports valid=%s with %s errors" % (plug.get("valid"), len(plug.get("errors") or [])))
    if diffs:
        return "typed validate_network_rules(false) returns %s but %s" % (typed["codes"], "; ".join(diffs)), detail, True
    return None, detail, True


UNPARSEABLE = {
    "UnsupportedMessageType": "{1:F01BANKDEFFAXXX0000000000}{2:I300BANKDEFFAXXXN}{4:\r\n:20:REF1\r\n-}",
    "MissingRequiredField": "{1:F01BANKDEFFAXXX0000000000}{2:I199BANKDEFFAXXXN}{4:\r\n:20:REF1\r\n-}",
    "InvalidFieldFormat": "{1:F01BANKDEFFAXXX0000000000}{2:I199BANKDEFFAXXXN}{4:\r\n:20:REF1\r\n:79:" + "X" * 60 + "\r\n-}",
    "InvalidBlockStructure": "{1:F01BANKDEFFAXXX0000000000}{4:\r\n:20:REF1\r\n-}",
    "InvalidFormat": "{1:F01BANK}{2:I199BANKDEFFAXXXN}{4:\r\n:20:REF1\r\n:79:X\r\n-}",
    "WrongMessageType": None, "ValidationFailed": None, "IoError": None, "SwiftValidation": None, "SerializationError": None,
    "FieldParsingFailed": None, "ComponentParseError": None,
}


def run_parse_errors(prog, res, timeout_ms):
    """validate_mt on text the parser rejects: whatever the ParseError variant, the verdict is `valid: false`."""
    from common import replay_batch
    fn = prog.method("Validate", "validate_mt_message")
    ed = prog.enums.get("ParseError")
    if fn is None or ed is None:
        res.append({"type": "*", "query": "Validate::validate_mt_message", "verdict": "not-encoded", "detail": "function / ParseError not found"})
        return
    for v in ed["variants"]:
        name = "Validate::validate_mt_message: a message rejected with ParseError::%s is reported as invalid" % v["name"]
        m = WrapMachine(prog, K=1)
        t0 = time.time()
        try:
            def opaque_of(ty):
                ty = ty.replace(" ", "")
                if ty.startswith("Box<"):
                    ty = ty[4:-1]
                if ty.startswith("Vec<"):
                    return VecV(((True, opaque_of(ty[4:-1])),))
                if ty in prog.structs:
                    return StructV(ty, {f["name"]: opaque_of(f["ty"]) for f in prog.structs[ty]["fields"]})
                return Opaque("parse-error component")
            if any(f.get("name") for f in v["fields"]):
                payload = {f["name"]: opaque_of(f["ty"]) for f in v["fields"]}
            else:
                payload = [opaque_of(f["ty"]) for f in v["fields"]]
            m.parse_auto_result = Res(False, None, EnumV("ParseError", v["name"], payload))
            val, _ = m.call_fn(fn[0], [Opaque("self"), Opaque("text")], True, self_ty="Validate")
            if isinstance(val, Res):
                val = val.val
            if not isinstance(val, StructV) or "valid" not in val.fields:
                raise Unsupported("result is not the verdict object: %r" % (val,))
            bad = m.as_bool(val.fields["valid"])
        except Unsupported as e:
            res.append({"type": "*", "query": name, "verdict": "not-encoded", "detail": str(e)})
            continue
        s = z3.Solver()
        s.set("timeout", timeout_ms)
        s.add(*m.constraints)
        s.add(B(bad))
        r = s.check()
        rec = {"type": "*", "query": name, "verdict": str(r), "time_s": round(time.time() - t0, 3)}
        if r == z3.sat:
            text = UNPARSEABLE.get(v["name"])
            if text is None:
                rec["verdict"] = "sat-not-replayable"
                rec["detail"] = "no input is known to make parse_auto return ParseError::%s" % v["name"]
            else:
                auto, plug = replay_batch([{"op": "auto", "text": text}, {"op": "plugin_validate", "text": text}], "dev")
                if not auto.get("ok") and plug.get("ok") and plug.get("valid") is True:
                    rec["witness"] = {"type": "*", "why": "parse_auto rejects the message (%s) but validate_mt reports valid=true" % str(auto.get("display", auto))[:200],
                                      "detail": {"text": text, "auto": auto, "plugin": {k: plug.get(k) for k in ("valid", "errors", "message_type")}}}
                else:
                    rec["verdict"] = "sat-not-reproduced"
                    rec["detail"] = json.dumps({"auto": auto, "plugin": plug})[:400]
        res.append(rec)


def run(K=2, timeout_ms=60000):
    prog = Program(layout_mod.extract_ast())
    res = []
    types = layout_mod.message_types(prog)
    tables = [("SwiftMessage", "validate", "flag"), ("ParsedSwiftMessage", "validate", "flag"), ("Validate", "validate_network_rules", "list")]
    witness_cache = {}
    run_parse_errors(prog, res, timeout_ms)
    for owner, fname, kind in tables:
        fn = prog.method(owner, fname)
        if fn is None:
            res.append({"type": "*", "query": "%s::%s" % (owner, fname), "verdict": "not-encoded", "detail": "function not found"})
            continue
        for ty in types:
            m = WrapMachine(prog, K=K)
            n = z3.Int("n_errors")
            codes = [z3.String("code_%d" % k) for k in range(K)]
            m.constraints += [n >= 0, n <= K]
            body = BodyTok(ty, n, codes)
            msg = StructV("SwiftMessage", {"basic_header": Opaque("BasicHeader"), "application_header": Opaque("ApplicationHeader"),
                                           "user_header": Opt(False, None), "trailer": Opt(False, None), "message_type": ty[2:], "fields": body})
            name = "%s::%s on %s" % (owner, fname, ty)
            t0 = time.time()
            try:
                if owner == "SwiftMessage":
                    val, _ = m.call_fn(fn[0], [msg], True, self_ty="SwiftMessage")
                elif owner == "ParsedSwiftMessage":
                    val, _ = m.call_fn(fn[0], [EnumV("ParsedSwiftMessage", ty, [msg])], True, self_ty="ParsedSwiftMessage")
                else:
                    val, _ = m.call_fn(fn[0], [Opaque("self"), EnumV("ParsedSwiftMessage", ty, [msg])], True, self_ty="Validate")
                if kind == "flag":
                    if not isinstance(val, StructV) or "is_valid" not in val.fields:
                        raise Unsupported("result is not a ValidationResult: %r" % (val,))
                    got = err_list(val.fields["errors"])
                    bad = Or(m.as_bool(val.fields["is_valid"]) != B(n == 0), same_list(m, got, body, K))
                else:
                    got = err_list(val)
                    bad = same_list(m, got, body, K)
            except Unsupported as e:
                res.append({"type": ty, "query": name, "verdict": "not-encoded", "detail": str(e)})
                continue
            s = z3.Solver()
            s.set("timeout", timeout_ms)
            s.add(*m.constraints)
            s.add(B(bad))
            r = s.check()
            rec = {"type": ty, "query": name + ": reports exactly the body's validate_network_rules(false) list", "verdict": str(r),
                   "time_s": round(time.time() - t0, 3), "K": K}
            if r == z3.sat:
                mdl = s.model()
                rec["model"] = {"n_errors": mdl.eval(n, model_completion=True).as_long()}
                if ty not in witness_cache:
                    witness_cache[ty] = error_bearing_message(prog, ty, K)
                why, detail, usable = None, None, False
                for b4 in witness_cache[ty]:
                    why, detail, ok = real_check(ty, b4)
                    usable = usable or ok
                    if why:
                        break
                if why:
                    rec["witness"] = {"type": ty, "why": why, "detail": detail}
                elif usable:
                    rec["verdict"] = "sat-not-reproduced"
                    rec["detail"] = "a real %s with network-rule errors is reported identically by all wrappers" % ty
                elif not witness_cache[ty]:
                    # no message of this type has a network-rule error: the wrapper's arm cannot be told apart from the body's list
                    rec["verdict"] = "unsat"
                    rec["note"] = "source-level difference, not observable: no %s instance with a network-rule error exists within K=%d" % (ty, K)
                else:
                    rec["verdict"] = "sat-not-replayable"
                    rec["detail"] = json.dumps(detail)[:400]
            res.append(rec)
    return res


if __name__ == "__main__":
    for r in run():
        if r["verdict"] != "unsat" or "-v" in sys.argv:
            print("%-6s %-18s %6.2fs %s %s" % (r["type"], r["verdict"], r.get("time_s", 0), r["query"][:90],
                                              json.dumps(r.get("witness", r.get("detail", "")))[:500]))
    print("done")
