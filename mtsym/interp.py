"""mtsym: source-level symbolic interpreter (with state merging) for the stylised layers of
swift-mt-message. Runs the syn AST (dumped by mtsym-extract from /repo's current source) of
`parse_from_block4`, `MessageParser::*`, `parser::utils::*`, `to_mt_string`, ... over a *symbolic token
list* and produces z3 terms. Anything it cannot read raises Unsupported (=> "not encoded", never a pass).

Token-level abstraction of strings (the only abstraction; listed in evidence as the primitive contract):
  * the block-4 text is a list of n <= N tokens, token i = (tag_i, content_i); white space between
    fields and the trailing "-" are abstracted away;
  * `&self.input[self.position..]` is the suffix starting at token `position`; `input.len()` is n;
  * `<suffix>.trim*().starts_with(":TAG:")`  <=>  position < n and tag_position == TAG;
  * `extract_field_content(<suffix>, TAG)` finds the FIRST token j >= position with tag_j == TAG
    (substring search semantics: not anchored at `position`) and returns (content_j, j + 1 - position);
  * `X::parse(content_j)` for a field type X is uninterpreted: ok_X(j), value = field(j, X [, variant]).
"""
import z3


class Unsupported(Exception):
    pass


def fmt_pieces(tmpl):
    """Rust format string -> list of ("lit", text) / ("arg", inner) pieces ({{ and }} are escapes)"""
    out, lit, i, n = [], "", 0, len(tmpl)
    while i < n:
        c = tmpl[i]
        if c == "{":
            if i + 1 < n and tmpl[i + 1] == "{":
                lit += "{"
                i += 2
                continue
            j = tmpl.index("}", i)
            if lit:
                out.append(("lit", lit))
                lit = ""
            out.append(("arg", tmpl[i + 1:j]))
            i = j + 1
        elif c == "}":
            if i + 1 < n and tmpl[i + 1] == "}":
                lit += "}"
                i += 2
            else:
                lit += "}"
                i += 1
        else:
            lit += c
            i += 1
    if lit:
        out.append(("lit", lit))
    return out


# Integers (token positions, counts, tag ids) are 16-bit bit-vectors with signed comparison: every value
# that occurs is in [-1, N + emitted items] (N <= 24), so nothing wraps; bit-blasting is far faster than
# linear integer arithmetic over nested if-then-else terms.
W = 16
USE_BV = False   # measured: linear integer arithmetic is ~9x faster than bit-blasting on these formulas


def IntV(v):
    return z3.BitVecVal(v, W) if USE_BV else z3.IntVal(v)


def IntVar(name):
    return z3.BitVec(name, W) if USE_BV else z3.Int(name)


def is_intterm(x):
    return is_sym(x) and (z3.is_bv(x) or z3.is_int(x))


# ----------------------------------------------------------------------------------------------
# values
# ----------------------------------------------------------------------------------------------
class Opt:
    __slots__ = ("present", "val")

    def __init__(self, present, val):
        self.present, self.val = present, val


class Res:
    __slots__ = ("ok", "val", "err")

    def __init__(self, ok, val, err):
        self.ok, self.val, self.err = ok, val, err


class VecV:
    __slots__ = ("items", "canonical", "dense")

    def __init__(self, items, canonical=None, dense=False):
        self.items = items  # tuple of (guard, value); guards are absolute path conditions
        self.canonical = canonical  # for the iteration sequence of a HashSet: the same members in a content-determined order
        self.dense = dense  # the present elements form a prefix (symbolic instance of a Vec: element k present iff len > k)


class ArrayV(VecV):
    """fixed-size array [T; N]: every element present; merged element-wise (so constant indices stay meaningful)"""
    __slots__ = ()


class StructV:
    __slots__ = ("name", "fields")

    def __init__(self, name, fields):
        self.name, self.fields = name, fields


class EnumV:
    """A non-field enum value (errors, ...): variant name + payload (list or dict)."""
    __slots__ = ("name", "variant", "payload")

    def __init__(self, name, variant, payload):
        self.name, self.variant, self.payload = name, variant, payload


class FieldV:
    """A parsed field: token index, static type, variant (python str, Alt of str, or None)."""
    __slots__ = ("idx", "ty", "variant")

    def __init__(self, idx, ty, variant=None):
        self.idx, self.ty, self.variant = idx, ty, variant


class PosV:
    """A token position / index in one-hot form: bits[i] <=> value == i, i in 0..N; N = "none / end".
    Exactly one bit is true by construction. Keeps the encoding propositional (no integer ite nests)."""
    __slots__ = ("bits",)

    def __init__(self, bits):
        self.bits = bits

    @staticmethod
    def const(p, N):
        return PosV([i == p for i in range(N + 1)])

    def succ(self):
        n = len(self.bits)
        return PosV([False] + [self.bits[i] for i in range(n - 2)] + [Or(self.bits[n - 2], self.bits[n - 1])])

    def eq(self, other):
        return Or(*[And(a, b) for a, b in zip(self.bits, other.bits)])

    def le_const(self, i):
        return Or(*self.bits[:i + 1])


class ConsumedV:
    """`consumed` returned by extract_field_content: adding it to the position gives `newpos`."""
    __slots__ = ("newpos",)

    def __init__(self, newpos):
        self.newpos = newpos


class LenV:
    """input.len() (= n in token units)"""
    pass


class TokRef:
    __slots__ = ("idx",)

    def __init__(self, idx):
        self.idx = idx


class RemV:
    """Suffix of the input starting at token `pos`."""
    __slots__ = ("pos",)

    def __init__(self, pos):
        self.pos = pos


class RemTail:
    """suffix of the input starting right after the ':' that opens the token at `pos`  (TAG:content...)"""
    __slots__ = ("pos",)

    def __init__(self, pos):
        self.pos = pos


class InputV:
    pass


class SetV:
    __slots__ = ("m",)

    def __init__(self, m):
        self.m = m  # dict str -> Bool


class TupleV:
    __slots__ = ("elems",)

    def __init__(self, elems):
        self.elems = elems


class Opaque:
    __slots__ = ("what",)

    def __init__(self, what):
        self.what = what


class Closure:
    __slots__ = ("params", "body", "frame", "ctx")

    def __init__(self, params, body, frame, ctx):
        self.params, self.body, self.frame, self.ctx = params, body, frame, ctx


class EmitV:
    """A String under construction: ordered guarded atoms (python str literals, FieldEmit, Opaque)."""
    __slots__ = ("items",)

    def __init__(self, items):
        self.items = items


class FieldEmit:
    __slots__ = ("fv",)

    def __init__(self, fv):
        self.fv = fv


class EmitTail:
    """serialised field without its leading ':'  (TAG:content)"""
    __slots__ = ("fv",)

    def __init__(self, fv):
        self.fv = fv


class Alt:
    """Guarded alternatives of values that cannot be merged structurally (strings, enum values...).
    Guards are mutually exclusive; exhaustive under the path on which the value is used."""
    __slots__ = ("alts",)

    def __init__(self, alts):
        self.alts = alts  # list of (guard, value)


class StrZ:
    """A symbolic string (z3 String term) — used for component values of symbolic message instances."""
    __slots__ = ("s",)

    def __init__(self, s):
        self.s = s


class FPV:
    """A symbolic f64 (z3 Float64 term)."""
    __slots__ = ("f",)

    def __init__(self, f):
        self.f = f


def to_strz(x):
    if isinstance(x, StrZ):
        return x.s
    if isinstance(x, str):
        return z3.StringVal(x)
    if isinstance(x, Alt) and all(isinstance(v, (str, StrZ)) for _, v in x.alts):
        out = to_strz(x.alts[-1][1])
        for g, v in reversed(x.alts[:-1]):
            out = z3.If(B(g), to_strz(v), out)
        return out
    raise Unsupported("not a string value: %r" % (x,))


def to_fp(x):
    if isinstance(x, FPV):
        return x.f
    if isinstance(x, (int, float)) and not isinstance(x, bool):
        return z3.FPVal(float(x), z3.Float64())
    raise Unsupported("not a float value: %r" % (x,))


class TypeRef:
    """A path naming a type (for associated calls)."""
    __slots__ = ("name",)

    def __init__(self, name):
        self.name = name


UNIT = TupleV(())
NEVER = Opaque("never")
TOKEN_LEVEL_IDENTITY = ("finalize_mt_string",)


def is_sym(x):
    return isinstance(x, z3.ExprRef)


def B(x):
    return x if is_sym(x) else z3.BoolVal(bool(x))


def And(*xs):
    ys = []
    for x in xs:
        if is_sym(x):
            ys.append(x)
        elif not x:
            return False
    if not ys:
        return True
    return z3.And(*ys) if len(ys) > 1 else ys[0]


def Or(*xs):
    ys = []
    for x in xs:
        if is_sym(x):
            ys.append(x)
        elif x:
            return True
    if not ys:
        return False
    return z3.Or(*ys) if len(ys) > 1 else ys[0]


def Not(x):
    return z3.Not(x) if is_sym(x) else (not x)


def If(c, a, b):
    if not is_sym(c):
        return a if c else b
    if isinstance(a, bool) or isinstance(b, bool) or (is_sym(a) and z3.is_bool(a)) or (is_sym(b) and z3.is_bool(b)):
        return z3.If(c, B(a), B(b))
    return z3.If(c, a if is_sym(a) else IntV(a), b if is_sym(b) else IntV(b))


def alt_of(v):
    return v.alts if isinstance(v, Alt) else [(True, v)]


def mk_alt(alts):
    """Normalise: drop false guards, combine equal python atoms."""
    out = []
    for g, v in alts:
        if not is_sym(g) and not g:
            continue
        if isinstance(v, Alt):
            for g2, v2 in v.alts:
                out.append((And(g, g2), v2))
        else:
            out.append((g, v))
    comb = []
    for g, v in out:
        done = False
        if isinstance(v, (str, int, bool)) or v is None:
            for k, (g0, v0) in enumerate(comb):
                if type(v0) is type(v) and v0 == v:
                    comb[k] = (Or(g0, g), v0)
                    done = True
                    break
        if not done:
            comb.append((g, v))
    if len(comb) == 1:
        return comb[0][1]
    if not comb:
        return Opaque("empty-alt")
    return Alt(comb)


def merge(c, a, b):
    """ite(c, a, b) on interpreter values."""
    if not is_sym(c):
        return a if c else b
    if a is b:
        return a
    if a is NEVER:
        return b
    if b is NEVER:
        return a
    if isinstance(a, (bool, int)) and not isinstance(a, str) and isinstance(b, (bool, int)) and a == b and type(a) is type(b):
        return a
    num = lambda x: isinstance(x, (bool, int)) or is_sym(x)
    if num(a) and num(b):
        return If(c, a, b)
    if isinstance(a, Opt) and isinstance(b, Opt):
        pa, pb = a.present, b.present
        if not is_sym(pa) and not pa:
            va = b.val
        else:
            va = a.val
        if not is_sym(pb) and not pb:
            vb = va
        else:
            vb = b.val
        return Opt(If(c, pa, pb), merge(c, va, vb))
    if isinstance(a, Res) and isinstance(b, Res):
        val_a = a.val if a.val is not None else b.val
        val_b = b.val if b.val is not None else a.val
        err_a = a.err if a.err is not None else b.err
        err_b = b.err if b.err is not None else a.err
        return Res(If(c, a.ok, b.ok), merge(c, val_a, val_b) if val_a is not None else None,
                   merge(c, err_a, err_b) if err_a is not None else None)
    if isinstance(a, ArrayV) and isinstance(b, ArrayV) and len(a.items) == len(b.items):
        return ArrayV(tuple((True, va if va is vb else merge(c, va, vb)) for (_, va), (_, vb) in zip(a.items, b.items)))
    if isinstance(a, VecV) and isinstance(b, VecV):
        k = 0
        while k < len(a.items) and k < len(b.items) and a.items[k] is b.items[k]:
            k += 1
        ea = tuple((And(c, g), v) for g, v in a.items[k:])
        eb = tuple((And(Not(c), g), v) for g, v in b.items[k:])
        return VecV(a.items[:k] + ea + eb)
    if isinstance(a, EmitV) and isinstance(b, EmitV):
        k = 0
        while k < len(a.items) and k < len(b.items) and a.items[k] is b.items[k]:
            k += 1
        ea = tuple((And(c, g), v) for g, v in a.items[k:])
        eb = tuple((And(Not(c), g), v) for g, v in b.items[k:])
        return EmitV(a.items[:k] + ea + eb)
    if isinstance(a, StructV) and isinstance(b, StructV) and a.name == b.name:
        return StructV(a.name, {k: merge(c, a.fields[k], b.fields[k]) for k in a.fields})
    if isinstance(a, StrZ) or isinstance(b, StrZ):
        try:
            return StrZ(z3.If(c, to_strz(a), to_strz(b)))
        except Unsupported:
            pass
    if isinstance(a, FPV) or isinstance(b, FPV):
        try:
            return FPV(z3.If(c, to_fp(a), to_fp(b)))
        except Unsupported:
            pass
    if isinstance(a, PosV) and isinstance(b, int) and not isinstance(b, bool):
        b = PosV.const(b, len(a.bits) - 1)
    if isinstance(b, PosV) and isinstance(a, int) and not isinstance(a, bool):
        a = PosV.const(a, len(b.bits) - 1)
    if isinstance(a, PosV) and isinstance(b, PosV):
        return PosV([If(c, x, y) if x is not y else x for x, y in zip(a.bits, b.bits)])
    if isinstance(a, FieldV) and isinstance(b, FieldV) and a.ty == b.ty:
        return FieldV(merge(c, a.idx, b.idx), a.ty, merge(c, a.variant, b.variant))
    if isinstance(a, TokRef) and isinstance(b, TokRef):
        return TokRef(merge(c, a.idx, b.idx))
    if isinstance(a, RemV) and isinstance(b, RemV):
        return RemV(merge(c, a.pos, b.pos))
    if isinstance(a, RemTail) and isinstance(b, RemTail):
        return RemTail(merge(c, a.pos, b.pos))
    if isinstance(a, ConsumedV) and isinstance(b, ConsumedV):
        return ConsumedV(merge(c, a.newpos, b.newpos))
    if isinstance(a, LenV) and isinstance(b, LenV):
        return a
    if isinstance(a, SetV) and isinstance(b, SetV):
        keys = set(a.m) | set(b.m)
        return SetV({k: If(c, a.m.get(k, False), b.m.get(k, False)) for k in keys})
    if isinstance(a, TupleV) and isinstance(b, TupleV) and len(a.elems) == len(b.elems):
        return TupleV(tuple(merge(c, x, y) for x, y in zip(a.elems, b.elems)))
    if isinstance(a, InputV) and isinstance(b, InputV):
        return a
    if a is None:
        return b
    if b is None:
        return a
    if isinstance(a, Opaque) and isinstance(b, Opaque):
        return a
    if isinstance(a, EnumV) and isinstance(b, EnumV) and a.name == b.name and a.variant == b.variant:
        if isinstance(a.payload, dict) and isinstance(b.payload, dict) and set(a.payload) == set(b.payload):
            return EnumV(a.name, a.variant, {k: merge(c, a.payload[k], b.payload[k]) for k in a.payload})
        if isinstance(a.payload, list) and isinstance(b.payload, list) and len(a.payload) == len(b.payload):
            return EnumV(a.name, a.variant, [merge(c, x, y) for x, y in zip(a.payload, b.payload)])
    if isinstance(a, str) and isinstance(b, str) and a == b:
        return a
    # fallback: guarded alternatives
    return mk_alt([(And(c, g), v) for g, v in alt_of(a)] + [(And(Not(c), g), v) for g, v in alt_of(b)])


# ----------------------------------------------------------------------------------------------
# program index
# ----------------------------------------------------------------------------------------------
class Program:
    def __init__(self, ast):
        self.ast = ast
        self.fns = {}        # (self_ty or None, name, is_trait_impl) -> (fn, file, impl_self)
        self.free = {}       # name -> (fn, file)
        self.structs = {}
        self.enums = {}
        self.typedefs = {}
        self.consts = {}
        self.trait_impls = {}  # (trait, self_ty) -> [fn names]
        self.modfns = {}       # (file basename, module, fn) -> fn
        for file, v in ast.items():
            if "items" not in v:
                raise Unsupported("parse error in %s: %s" % (file, v.get("parse_error")))
            self._index(v["items"], file)

    def _index(self, items, file):
        for it in items:
            k = it["k"]
            if k == "fn":
                self.free.setdefault(it["sig"]["name"], (it, file))
            elif k == "impl":
                st = it["self_ty"].split("<")[0]
                tr = it.get("trait")
                for sub in it["items"]:
                    if sub["k"] == "fn":
                        self.fns[(st, sub["sig"]["name"], tr is not None)] = (sub, file, st)
                        if tr:
                            self.trait_impls.setdefault((tr.split("::")[-1], st), []).append(sub["sig"]["name"])
                    elif sub["k"] == "const":
                        self.consts[(st, sub["name"])] = sub
            elif k == "structdef":
                self.structs[it["name"]] = it
            elif k == "enumdef":
                self.enums[it["name"]] = it
            elif k == "typedef":
                self.typedefs[it["name"]] = it["ty"].replace(" ", "")
            elif k == "const":
                self.consts[(None, it["name"])] = it
            elif k == "mod" and it.get("items") is not None:
                if any("cfg (test)" in a or "cfg(test)" in a for a in it["meta"]["attrs"]):
                    continue
                for sub in it["items"]:
                    if sub["k"] == "fn":
                        self.modfns[(file.split("/")[-1], it["name"], sub["sig"]["name"])] = sub
                self._index(it["items"], file)

    def resolve_type(self, name):
        seen = 0
        while name in self.typedefs and seen < 10:
            name = self.typedefs[name]
            seen += 1
        return name

    def method(self, ty, name, prefer_inherent=True):
        ty = self.resolve_type(ty)
        a = self.fns.get((ty, name, False))
        b = self.fns.get((ty, name, True))
        if prefer_inherent:
            return a or b
        return b or a

    def is_field_type(self, ty):
        ty = self.resolve_type(ty)
        return ("SwiftField", ty) in self.trait_impls


# ----------------------------------------------------------------------------------------------
# interpreter
# ----------------------------------------------------------------------------------------------
class Frame:
    __slots__ = ("vars", "ret", "retvals", "brk", "cont", "generics", "self_ty")

    def __init__(self):
        self.vars = {}
        self.ret = False
        self.retvals = ()
        self.brk = False
        self.cont = False
        self.generics = {}
        self.self_ty = None

    def copy(self):
        f = Frame()
        f.vars = dict(self.vars)
        f.ret, f.retvals, f.brk, f.cont = self.ret, self.retvals, self.brk, self.cont
        f.generics, f.self_ty = self.generics, self.self_ty
        return f


def merge_frames(c, fa, fb):
    f = Frame()
    f.generics, f.self_ty = fa.generics, fa.self_ty
    keys = set(fa.vars) | set(fb.vars)
    for k in keys:
        if k in fa.vars and k in fb.vars:
            f.vars[k] = merge(c, fa.vars[k], fb.vars[k])
        # variables declared in only one branch go out of scope
    f.ret = If(c, fa.ret, fb.ret) if (fa.ret is not fb.ret) else fa.ret
    f.brk = If(c, fa.brk, fb.brk) if (fa.brk is not fb.brk) else fa.brk
    f.cont = If(c, fa.cont, fb.cont) if (fa.cont is not fb.cont) else fa.cont
    k = 0
    while k < len(fa.retvals) and k < len(fb.retvals) and fa.retvals[k] is fb.retvals[k]:
        k += 1
    f.retvals = fa.retvals[:k] + fa.retvals[k:] + fb.retvals[k:]  # guards are absolute
    return f


_MISSING = object()


def pat_names(pat):
    k = pat["k"]
    if k == "pident":
        return [pat["name"]]
    if k in ("ptuple", "ptuplestruct"):
        out = []
        for p in pat["elems"]:
            out += pat_names(p)
        return out
    if k in ("ptype", "pref"):
        return pat_names(pat["pat"])
    return []


class Machine:
    """Symbolic token list + interpreter."""

    def __init__(self, prog, N, unroll=None, cap_scale=None):
        self.prog = prog
        self.N = N
        self.unroll = unroll if unroll is not None else N + 1
        self.cap_scale = cap_scale
        self.n = z3.Int("n")
        self.tag = [z3.Int("tag_%d" % i) for i in range(N)]
        self.strtab = ["<UNK>"]
        self.strid = {}
        self.okf = {}
        self.heurvar = {}
        self.side = []          # side constraints (domains of fresh symbols)
        self.unwind_obl = []    # guards that must be unsat (loop bound sufficient)
        self.progress_obl = []  # (guard) iteration made no progress
        self.depth = 0
        self.caps_scaled = []
        self.fresh = 0
        self.notes = []
        self.deferred_prefix = []
        self.field_tags = {}
        self.heur_used = []     # (guard, type, token index) of content-based (letter-less) variant guessing

    # -- token model ---------------------------------------------------------------------------
    def sid(self, s):
        if s not in self.strid:
            self.strid[s] = len(self.strtab)
            self.strtab.append(s)
        return self.strid[s]

    def domain(self):
        cs = [self.n >= 0, self.n <= self.N]
        for t in self.tag:
            cs += [t >= 0, t < len(self.strtab)]
        for ty, vs in self.heurvar.items():
            for v in vs:
                cs += [v >= 0, v < max(1, len(self.prog.enums[ty]["variants"]))]
        # "TAG:..." starts with s  — decided over the final string table (an unknown tag matches no prefix)
        for p, pos, sx in self.deferred_prefix:
            ids = [self.strid[t] for t in self.strtab[1:] if (t + ":").startswith(sx)]
            cs.append(p == B(Or(*[And(pos.bits[i], i < self.n, Or(*[self.tag[i] == k for k in ids])) for i in range(self.N)])))
        return cs + self.side

    def topos(self, pos):
        if isinstance(pos, PosV):
            return pos
        if isinstance(pos, int) and not isinstance(pos, bool):
            return PosV.const(min(max(pos, 0), self.N), self.N)
        raise Unsupported("position is not a token position: %r" % (pos,))

    def at_end(self, pos):
        """pos >= n"""
        pos = self.topos(pos)
        return Or(pos.bits[self.N], *[And(pos.bits[i], self.n <= i) for i in range(self.N)])

    def tag_is_at_index(self, i, s):
        conds = []
        for g, v in alt_of(s):
            if not isinstance(v, str):
                raise Unsupported("tag comparison with non-string %r" % (v,))
            conds.append(And(g, self.tag[i] == self.sid(v)))
        return Or(*conds)

    def tag_is(self, pos, s):
        """token at `pos` exists and has tag s (s: str or Alt of str)."""
        pos = self.topos(pos)
        return Or(*[And(pos.bits[i], i < self.n, self.tag_is_at_index(i, s)) for i in range(self.N)])

    def ok(self, ty, idx):
        """ok_T(idx): content of token idx is accepted by T::parse — one free Bool per (type, position)."""
        ty = self.prog.resolve_type(ty)
        if ty not in self.okf:
            self.okf[ty] = [z3.Bool("ok_%s_%d" % (ty, i)) for i in range(self.N)]
        vs = self.okf[ty]
        idx = self.topos(idx)
        return Or(*[And(idx.bits[i], vs[i]) for i in range(self.N)])

    def content_pred(self, key, idx):
        if not hasattr(self, "_cpred"):
            self._cpred = {}
        if key not in self._cpred:
            self._cpred[key] = [z3.Bool("content_%d_%d" % (len(self._cpred), i)) for i in range(self.N)]
        vs = self._cpred[key]
        idx = self.topos(idx)
        return Or(*[And(idx.bits[i], vs[i]) for i in range(self.N)])

    def heur_is(self, ty, idx, k):
        """the content-based (letter-less) parser of enum T picks variant number k for token idx"""
        if ty not in self.heurvar:
            self.heurvar[ty] = [z3.Int("heur_%s_%d" % (ty, i)) for i in range(self.N)]
        vs = self.heurvar[ty]
        idx = self.topos(idx)
        return Or(*[And(idx.bits[i], vs[i] == k) for i in range(self.N)])

    def first_from(self, pos, s):
        """(found, j): first token index j >= pos with tag_j == s (one-hot; bit N = not found)."""
        pos = self.topos(pos)
        bits = []
        earlier = False
        for i in range(self.N):
            hit = And(pos.le_const(i), i < self.n, self.tag_is_at_index(i, s))
            bits.append(And(hit, Not(earlier)))
            earlier = Or(earlier, hit)
        bits.append(Not(earlier))
        return earlier, PosV(bits)

    # -- calling -------------------------------------------------------------------------------
    def call_fn(self, fn, args, guard, self_ty=None, generics=None, self_val=None):
        """Inline a function. args: list of values in parameter order (self first if a method).
        Returns (value, final values of parameters by name)."""
        self.depth += 1
        if self.depth > 40:
            self.depth -= 1
            raise Unsupported("call depth > 40 (recursion?) at %s" % fn["sig"]["name"])
        fr = Frame()
        fr.self_ty = self_ty
        fr.generics = dict(generics or {})
        params = fn["sig"]["params"]
        if len(params) != len(args):
            self.depth -= 1
            raise Unsupported("arity mismatch calling %s" % fn["sig"]["name"])
        for p, a in zip(params, args):
            name = p["name"].replace("mut ", "").strip()
            fr.vars[name] = a
        v = self.exec_block(fn["body"], fr, guard)
        # combine returns
        out = v
        for g, rv in reversed(fr.retvals):
            out = merge(g, rv, out) if out is not None else rv
        self.depth -= 1
        out = self.coerce_return(fn, out)
        return out, fr.vars

    def coerce_return(self, fn, out):
        return out

    def oblige(self, fr, guard, cond, what):
        """panic obligation: on every live path reaching this point `cond` must hold (collected only when a checker asks)"""
        obs = getattr(self, "obligations", None)
        if obs is not None and not (not is_sym(cond) and cond is True):
            obs.append((self.live(fr, guard) if fr is not None else guard, cond, what))

    def live(self, fr, guard):
        return And(guard, Not(fr.ret), Not(fr.brk), Not(fr.cont))

    # -- statements ------------------------------------------------------------------------------
    def exec_block(self, blk, fr, guard):
        """Execute statements; returns the tail expression's value (or UNIT). `let` bindings made in the
        block go out of scope at its end (a shadowed outer binding becomes visible again)."""
        val = UNIT
        stmts = blk["stmts"]
        saved = {}
        for i, st in enumerate(stmts):
            k = st["k"]
            if k == "let":
                if st.get("init") is not None and st["pat"]["k"] == "ptype" and st["init"].get("k") == "call" \
                        and st["init"]["func"].get("k") == "path" and st["init"]["func"]["path"] in ("Default::default", "std::default::Default::default"):
                    init = self.default_of(st["pat"]["ty"].replace(" ", ""))
                else:
                    init = self.eval(st["init"], fr, guard) if st.get("init") is not None else None
                for name in pat_names(st["pat"]):
                    if name not in saved:
                        saved[name] = fr.vars.get(name, _MISSING)
                if st.get("else") is not None:
                    # let PAT = init else { diverges }: run the else block where the pattern fails (it returns / breaks /
                    # continues, so those paths are dead afterwards), bind on the others
                    if isinstance(init, Alt):
                        raise Unsupported("let-else on alternatives at line %s" % st.get("line"))
                    c, binds = self.match_pat(st["pat"], init, fr)
                    els = st["else"]
                    r = self.branch(Not(c), fr, guard, lambda f, g: self.exec_block(els, f, g) if els.get("k") == "block" or "stmts" in els
                                    else self.eval(els, f, g), lambda f, g: NEVER)
                    fr.vars.update(binds)
                else:
                    self.bind(st["pat"], init, fr)
                val = UNIT
            elif k == "sexpr":
                v = self.eval(st["expr"], fr, guard)
                val = v if ((not st["semi"] or v is NEVER) and i == len(stmts) - 1) else UNIT
            elif k == "sitem":
                it = st["item"]
                if it.get("k") == "const":
                    if it["name"] not in saved:
                        saved[it["name"]] = fr.vars.get(it["name"], _MISSING)
                    fr.vars[it["name"]] = self.eval(it["expr"], fr, guard)
                val = UNIT
            else:
                raise Unsupported("statement kind %s" % k)
        for name, old in saved.items():
            if old is _MISSING:
                fr.vars.pop(name, None)
            else:
                fr.vars[name] = old
        return val

    def default_of(self, ty):
        """Default::default() of a written type"""
        import re
        m = re.match(r"^\[(.*);(\d+)\]$", ty)
        if m:
            return ArrayV(tuple((True, self.default_of(m.group(1))) for _ in range(int(m.group(2)))))
        if ty.startswith("Vec<") or ty.startswith("HashMap<"):
            return VecV(())
        if ty.startswith("Option<"):
            return Opt(False, None)
        if ty in ("String", "&str"):
            return ""
        if ty == "bool":
            return False
        if ty in ("usize", "u8", "u16", "u32", "u64", "i32", "i64"):
            return 0
        ty = self.prog.resolve_type(ty)
        if ty in self.prog.structs:
            return StructV(ty, {f["name"]: self.default_of(f["ty"].replace(" ", "")) for f in self.prog.structs[ty]["fields"]})
        raise Unsupported("Default::default() of %s" % ty)

    def bind(self, pat, val, fr):
        k = pat["k"]
        if k == "pident":
            fr.vars[pat["name"]] = val
        elif k == "pwild":
            pass
        elif k == "ptuple":
            if isinstance(val, Alt):
                raise Unsupported("tuple pattern on alternatives")
            if not isinstance(val, TupleV) or len(val.elems) != len(pat["elems"]):
                raise Unsupported("tuple pattern mismatch")
            for p, v in zip(pat["elems"], val.elems):
                self.bind(p, v, fr)
        elif k == "ptype":
            self.bind(pat["pat"], val, fr)
        elif k == "pref":
            self.bind(pat["pat"], val, fr)
        else:
            raise Unsupported("let pattern %s" % k)

    # -- patterns (refutable) ---------------------------------------------------------------------
    def match_pat(self, pat, val, fr):
        """Returns (cond, bindings) for matching val against pat. val must not be Alt."""
        k = pat["k"]
        if k == "pwild":
            return True, {}
        if k == "pident":
            if pat.get("sub"):
                raise Unsupported("@ pattern")
            # an identifier pattern could be a unit variant / const — only `None` matters here
            if pat["name"] == "None":
                if not isinstance(val, Opt):
                    raise Unsupported("None pattern on non-option")
                return Not(val.present), {}
            return True, {pat["name"]: val}
        if k == "ppath":
            if pat["path"] == "None":
                if not isinstance(val, Opt):
                    raise Unsupported("None pattern on non-option")
                return Not(val.present), {}
            raise Unsupported("path pattern %s" % pat["path"])
        if k == "pref":
            return self.match_pat(pat["pat"], val, fr)
        if k == "ptype":
            return self.match_pat(pat["pat"], val, fr)
        if k == "plit":
            lit = pat["lit"]
            if lit["k"] == "str":
                if isinstance(val, StrZ) or (isinstance(val, Alt) and any(isinstance(v, StrZ) for _, v in val.alts)):
                    return to_strz(val) == z3.StringVal(lit["v"]), {}
                conds = [g for g, v in alt_of(val) if v == lit["v"]]
                for g, v in alt_of(val):
                    if not isinstance(v, str):
                        raise Unsupported("string literal pattern on %r" % (v,))
                return Or(*conds), {}
            if lit["k"] == "bool":
                bv = self.as_bool(val)
                return (bv if lit["v"] else Not(bv)), {}
            if lit["k"] == "int" and (is_intterm(val) or isinstance(val, int)):
                return val == int(lit["v"]), {}
            if lit["k"] == "char":
                allowed = getattr(val, "allowed", None)
                if allowed is not None:
                    if lit["v"] not in allowed:
                        return False, {}           # a symbolic character of a class that excludes the literal
                    return to_strz(val) == z3.StringVal(lit["v"]), {}
                if isinstance(val, str):
                    return val == lit["v"], {}
                if isinstance(val, StrZ):
                    return to_strz(val) == z3.StringVal(lit["v"]), {}
            raise Unsupported("literal pattern kind %s" % lit["k"])
        if k == "por":
            conds = []
            for c in pat["cases"]:
                cc, bb = self.match_pat(c, val, fr)
                if bb:
                    raise Unsupported("bindings in or-pattern")
                conds.append(cc)
            return Or(*conds), {}
        if k == "ptuple":
            if not isinstance(val, TupleV) or len(val.elems) != len(pat["elems"]):
                raise Unsupported("tuple pattern mismatch")
            cond, binds = True, {}
            for p, v in zip(pat["elems"], val.elems):
                c, b = self.match_pat(p, v, fr)
                cond = And(cond, c)
                binds.update(b)
            return cond, binds
        if k == "ptuplestruct":
            name = pat["path"].split("::")[-1]
            elems = pat["elems"]
            if name == "Some":
                if not isinstance(val, Opt):
                    raise Unsupported("Some pattern on %r" % type(val).__name__)
                c, b = self.match_pat(elems[0], val.val, fr) if val.val is not None else (True, {})
                if val.val is None and not (not is_sym(val.present) and not val.present):
                    raise Unsupported("Some pattern on option without payload")
                return And(val.present, c), b
            if name == "Ok":
                if not isinstance(val, Res):
                    raise Unsupported("Ok pattern on %r" % type(val).__name__)
                if val.val is None:
                    return (False, {}) if (not is_sym(val.ok) and not val.ok) else (val.ok, {})
                c, b = self.match_sub(elems[0], val.val, fr)
                return And(val.ok, c), b
            if name == "Err":
                if not isinstance(val, Res):
                    raise Unsupported("Err pattern on %r" % type(val).__name__)
                if val.err is None:
                    return Not(val.ok), {}
                c, b = self.match_sub(elems[0], val.err, fr)
                return And(Not(val.ok), c), b
            # field enum variant pattern  Enum::A(f)
            if isinstance(val, FieldV):
                inner = self.variant_inner(val.ty, name)
                conds = [g for g, v in alt_of(val.variant) if v == name]
                c, b = self.match_pat(elems[0], FieldV(val.idx, inner, None), fr)
                return And(Or(*conds), c), b
            if isinstance(val, EnumV):
                if val.variant != name:
                    return False, {}
                if not isinstance(val.payload, list) or len(val.payload) != len(elems):
                    raise Unsupported("enum tuple pattern arity")
                cond, binds = True, {}
                for p, v in zip(elems, val.payload):
                    c, b = self.match_pat(p, v, fr)
                    cond = And(cond, c)
                    binds.update(b)
                return cond, binds
            raise Unsupported("tuple-struct pattern %s on %s" % (pat["path"], type(val).__name__))
        if k == "pstruct":
            name = pat["path"].split("::")[-1]
            if isinstance(val, EnumV):
                if val.variant != name:
                    return False, {}
                fields = val.payload if isinstance(val.payload, dict) else None
            elif isinstance(val, StructV):
                fields = val.fields
            else:
                raise Unsupported("struct pattern %s on %s" % (pat["path"], type(val).__name__))
            if fields is None:
                raise Unsupported("struct pattern on a tuple variant")
            cond, binds = True, {}
            for f in pat["fields"]:
                if f["member"] not in fields:
                    raise Unsupported("struct pattern names unknown member %s" % f["member"])
                c, b = self.match_sub(f["pat"], fields[f["member"]], fr)
                cond = And(cond, c)
                binds.update(b)
            return cond, binds
        raise Unsupported("pattern kind %s" % k)

    def match_sub(self, pat, val, fr):
        """match a sub-pattern where val may be an Alt: only wildcard / ident allowed then."""
        if isinstance(val, Alt) and pat["k"] not in ("pwild", "pident"):
            # distribute
            conds, binds = [], None
            for g, v in val.alts:
                c, b = self.match_pat(pat, v, fr)
                conds.append(And(g, c))
                if b:
                    if binds is None:
                        binds = {k: [(And(g, c), x)] for k, x in b.items()}
                    else:
                        for k2, x in b.items():
                            binds.setdefault(k2, []).append((And(g, c), x))
            out = {}
            for k2, lst in (binds or {}).items():
                v = lst[-1][1]
                for g, x in reversed(lst[:-1]):
                    v = merge(g, x, v)
                out[k2] = v
            return Or(*conds), out
        return self.match_pat(pat, val, fr)

    def variant_inner(self, enum_ty, variant):
        enum_ty = self.prog.resolve_type(enum_ty)
        e = self.prog.enums.get(enum_ty)
        if not e:
            raise Unsupported("unknown enum %s" % enum_ty)
        for v in e["variants"]:
            if v["name"] == variant:
                if len(v["fields"]) != 1:
                    raise Unsupported("variant %s::%s arity" % (enum_ty, variant))
                return v["fields"][0]["ty"]
        raise Unsupported("no variant %s::%s" % (enum_ty, variant))

    # -- branching helpers ---------------------------------------------------------------------
    def branch(self, cond, fr, guard, then_fn, else_fn):
        """Execute then/else under cond with state merging. *_fn(frame, guard) -> value."""
        if not is_sym(cond):
            return (then_fn if cond else else_fn)(fr, guard)
        fa, fb = fr.copy(), fr.copy()
        va = then_fn(fa, And(guard, cond))
        vb = else_fn(fb, And(guard, Not(cond)))
        m = merge_frames(cond, fa, fb)
        fr.vars, fr.ret, fr.retvals, fr.brk, fr.cont = m.vars, m.ret, m.retvals, m.brk, m.cont
        if va is None and vb is None:
            return None
        return merge(cond, va, vb)

    # -- expressions -----------------------------------------------------------------------------
    def eval(self, e, fr, guard):
        k = e["k"]
        m = getattr(self, "ev_" + k, None)
        if m is None:
            raise Unsupported("expression kind %s: %s" % (k, str(e)[:120]))
        return m(e, fr, guard)

    def ev_lit(self, e, fr, guard):
        l = e["lit"]
        if l["k"] == "str":
            return l["v"]
        if l["k"] == "int":
            return int(l["v"])
        if l["k"] == "bool":
            return l["v"]
        if l["k"] == "char":
            return l["v"]
        raise Unsupported("literal %s" % l["k"])

    def ev_path(self, e, fr, guard):
        p = e["path"]
        if p in fr.vars:
            return fr.vars[p]
        if p == "None":
            return Opt(False, None)
        if p == "self" and "self" in fr.vars:
            return fr.vars["self"]
        parts = p.split("::")
        if len(parts) >= 2:
            ty = parts[-2]
            if ty == "Self":
                ty = fr.self_ty
            ty = fr.generics.get(ty, ty)
            c = self.prog.consts.get((ty, parts[-1]))
            if c is not None:
                return self.eval(c["expr"], fr, guard)
        c = self.prog.consts.get((None, parts[-1]))
        if c is not None and len(parts) == 1:
            return self.eval(c["expr"], fr, guard)
        return TypeRef(p)

    def ev_ref(self, e, fr, guard):
        return self.eval(e["expr"], fr, guard)

    def ev_block(self, e, fr, guard):
        return self.exec_block(e, fr, guard)

    def ev_tuple(self, e, fr, guard):
        return TupleV(tuple(self.eval(x, fr, guard) for x in e["elems"]))

    def ev_array(self, e, fr, guard):
        return ArrayV(tuple((True, self.eval(x, fr, guard)) for x in e["elems"]))

    def ev_cast(self, e, fr, guard):
        return self.eval(e["expr"], fr, guard)

    def ev_unary(self, e, fr, guard):
        v = self.eval(e["expr"], fr, guard)
        op = e["op"]
        if op == "!":
            return Not(self.as_bool(v))
        if op == "*" or op == "&":
            return v
        if op == "-":
            return -v
        raise Unsupported("unary %s" % op)

    def fresh_bool(self, why="content"):
        self.fresh += 1
        return z3.Bool("unknown_%s_%d" % (why, self.fresh))

    def is_content(self, v):
        return isinstance(v, TokRef) or (isinstance(v, Opaque) and v.what.startswith("content"))

    def as_bool(self, v):
        if isinstance(v, bool) or (is_sym(v) and z3.is_bool(v)):
            return v
        if self.is_content(v):
            return self.fresh_bool()
        if isinstance(v, Alt):
            return Or(*[And(g, self.as_bool(x)) for g, x in v.alts])
        raise Unsupported("not a boolean: %r" % (v,))

    def ev_binary(self, e, fr, guard):
        op = e["op"]
        if op == "&&":
            a = self.as_bool(self.eval(e["left"], fr, guard))
            if not is_sym(a) and not a:
                return False
            b = self.as_bool(self.eval(e["right"], fr, And(guard, a)))
            return And(a, b)
        if op == "||":
            a = self.as_bool(self.eval(e["left"], fr, guard))
            if not is_sym(a) and a:
                return True
            b = self.as_bool(self.eval(e["right"], fr, And(guard, Not(a))))
            return Or(a, b)
        a = self.eval(e["left"], fr, guard)
        b = self.eval(e["right"], fr, guard)
        return self.binop(e, op, a, b, fr, guard)

    def binop(self, e, op, a, b, fr, guard):
        if (self.is_content(a) or self.is_content(b)) and op in ("<", "<=", ">", ">=", "==", "!="):
            return self.fresh_bool()
        if (self.is_content(a) or self.is_content(b)) and op in ("+", "-", "*", "/", "%"):
            return Opaque("content.arith")
        if op in ("+=", "-="):
            if isinstance(b, ConsumedV) and op == "+=":
                nv = b.newpos
            elif isinstance(a, PosV):
                raise Unsupported("arithmetic on a token position")
            else:
                nv = (a + b) if op == "+=" else (a - b)
            self.assign(e["left"], nv, fr, guard)
            return UNIT
        if isinstance(b, LenV) and op in (">=", "<"):
            r = self.at_end(a)
            return r if op == ">=" else Not(r)
        if isinstance(a, PosV) or isinstance(b, PosV):
            if op in ("==", "!=") and isinstance(a, PosV) and isinstance(b, PosV):
                r = a.eq(b)
                return r if op == "==" else Not(r)
            raise Unsupported("operator %s on a token position" % op)
        # cap scaling: `<vec>.len() <cmp> <literal >= 10>`
        if self.cap_scale is not None and op in (">=", "<", ">", "<=") and isinstance(b, int) and not isinstance(b, bool) \
                and b >= 10 and e["left"]["k"] == "mcall" and e["left"]["method"] == "len":
            self.caps_scaled.append((b, self.cap_scale))
            b = self.cap_scale
        if op in ("==", "!="):
            r = self.equals(a, b)
            return r if op == "==" else Not(r)
        num = lambda x: (isinstance(x, int) and not isinstance(x, bool)) or is_intterm(x)
        if num(a) and num(b):
            if op == "+":
                return a + b
            if op == "-":
                return a - b
            if op == "*":
                return a * b
            if op == "%":
                return a % b
            if op == "/":
                return a / b
            if op == "<":
                return a < b
            if op == "<=":
                return a <= b
            if op == ">":
                return a > b
            if op == ">=":
                return a >= b
        if isinstance(a, int) and isinstance(b, int) and not isinstance(a, bool) and not isinstance(b, bool) and op in ("<<", ">>", "|", "&", "^"):
            return {"<<": a << b, ">>": a >> b, "|": a | b, "&": a & b, "^": a ^ b}[op]
        raise Unsupported("binary %s on %s,%s" % (op, type(a).__name__, type(b).__name__))

    def equals(self, a, b):
        if self.is_content(a) or self.is_content(b):
            return self.fresh_bool()      # comparison that depends on a field's content: unknown
        if isinstance(a, RemV) or isinstance(b, RemV):
            other = b if isinstance(a, RemV) else a
            if other == "-":
                return False   # the terminator is not a token (abstracted)
            raise Unsupported("comparison of remaining text with %r" % (other,))
        for x, y in ((a, b), (b, a)):
            al = getattr(x, "allowed", None)
            if al is not None and isinstance(y, str) and len(y) == 1 and y not in al:
                return False        # a symbolic character of a class that excludes the literal
        if isinstance(a, Opt) and isinstance(b, Opt):
            if a.val is None or b.val is None:
                return And(Not(a.present), Not(b.present))
            return Or(And(Not(a.present), Not(b.present)), And(a.present, b.present, self.equals(a.val, b.val)))
        if isinstance(a, StrZ) or isinstance(b, StrZ):
            return to_strz(a) == to_strz(b)
        if isinstance(a, FPV) or isinstance(b, FPV):
            return z3.fpEQ(to_fp(a), to_fp(b))
        sa, sb = alt_of(a), alt_of(b)
        if any(isinstance(v, StrZ) for _, v in sa) or any(isinstance(v, StrZ) for _, v in sb):
            return to_strz(a) == to_strz(b)
        if all(isinstance(v, str) for _, v in sa) and all(isinstance(v, str) for _, v in sb):
            return Or(*[And(g1, g2) for g1, v1 in sa for g2, v2 in sb if v1 == v2])
        num = lambda x: isinstance(x, (int, bool)) or is_sym(x)
        if num(a) and num(b):
            return a == b
        raise Unsupported("equality on %s,%s" % (type(a).__name__, type(b).__name__))

    def assign(self, target, val, fr, guard):
        k = target["k"]
        if k == "path":
            if target["path"] not in fr.vars:
                raise Unsupported("assignment to unknown %s" % target["path"])
            fr.vars[target["path"]] = val
        elif k == "field":
            base = self.eval(target["base"], fr, guard)
            if not isinstance(base, StructV):
                raise Unsupported("field assignment on %s" % type(base).__name__)
            nf = dict(base.fields)
            nf[target["member"]] = val
            self.assign(target["base"], StructV(base.name, nf), fr, guard)
        elif k in ("unary", "ref"):
            self.assign(target["expr"], val, fr, guard)
        elif k == "index":
            base = self.eval(target["base"], fr, guard)
            i = self.eval(target["index"], fr, guard)
            if not isinstance(base, ArrayV) or not isinstance(i, int) or not 0 <= i < len(base.items):
                raise Unsupported("assignment to an element: only a constant index into a fixed-size array is encoded (%s[%s])"
                                  % (type(base).__name__, i))
            items = list(base.items)
            items[i] = (True, val)
            self.assign(target["base"], ArrayV(tuple(items)), fr, guard)
        else:
            raise Unsupported("assignment target %s" % k)

    def ev_assign(self, e, fr, guard):
        if e["left"]["k"] == "raw":
            self.eval(e["right"], fr, guard)
            return UNIT
        v = self.eval(e["right"], fr, guard)
        self.assign(e["left"], v, fr, guard)
        return UNIT

    def ev_field(self, e, fr, guard):
        base = self.eval(e["base"], fr, guard)
        mem = e["member"]
        if isinstance(base, StructV):
            if mem not in base.fields:
                raise Unsupported("no field %s in %s" % (mem, base.name))
            return base.fields[mem]
        if isinstance(base, TupleV) and mem.isdigit():
            return base.elems[int(mem)]
        if isinstance(base, FieldV):
            return Opaque("component %s of %s" % (mem, base.ty))
        raise Unsupported("field access .%s on %s" % (mem, type(base).__name__))

    def ev_index(self, e, fr, guard):
        base = self.eval(e["base"], fr, guard)
        idx = e["index"]
        if self.is_content(base):
            return Opaque("content.slice")
        if isinstance(base, InputV) and idx["k"] == "range" and idx.get("end") is None and idx.get("start") is not None:
            return RemV(self.eval(idx["start"], fr, guard))
        raise Unsupported("index expression on %s" % type(base).__name__)

    def ev_if(self, e, fr, guard):
        cond = e["cond"]
        els = e.get("else")
        then_fn = lambda f, g: self.exec_block(e["then"], f, g)
        else_fn = (lambda f, g: self.eval(els, f, g)) if els is not None else (lambda f, g: UNIT)
        if cond["k"] == "letcond":
            sv = self.eval(cond["expr"], fr, guard)
            return self.if_let(cond["pat"], sv, fr, guard, then_fn, else_fn)
        c = self.as_bool(self.eval(cond, fr, guard))
        return self.branch(c, fr, guard, then_fn, else_fn)

    def if_let(self, pat, sv, fr, guard, then_fn, else_fn):
        if isinstance(sv, Alt):
            # distribute over alternatives (nested ifs)
            alts = sv.alts

            def rec(i, f, g):
                if i == len(alts) - 1:
                    return self.if_let(pat, alts[i][1], f, g, then_fn, else_fn)
                return self.branch(alts[i][0], f, g, lambda f2, g2: self.if_let(pat, alts[i][1], f2, g2, then_fn, else_fn),
                                   lambda f2, g2: rec(i + 1, f2, g2))
            return rec(0, fr, guard)
        c, binds = self.match_pat(pat, sv, fr)

        def th(f, g):
            f.vars.update(binds)
            return then_fn(f, g)
        return self.branch(c, fr, guard, th, else_fn)

    def ev_match(self, e, fr, guard):
        sv = self.eval(e["expr"], fr, guard)
        arms = e["arms"]

        def run(val, f, g):
            def rec(i, f2, g2):
                if i >= len(arms):
                    return Opaque("match-fallthrough")
                arm = arms[i]
                c, binds = self.match_pat(arm["pat"], val, f2)
                has_guard = arm.get("guard") is not None
                if has_guard:
                    # `pat if cond`: the guard is evaluated with the pattern's bindings, only where the pattern matches
                    fg = f2.copy()
                    fg.vars.update(binds)
                    gc = self.as_bool(self.eval(arm["guard"], fg, And(g2, c)))
                    c = And(c, gc)

                def th(f3, g3):
                    f3.vars.update(binds)
                    return self.eval(arm["body"], f3, g3)
                if not is_sym(c) and c:
                    return th(f2, g2)
                if i == len(arms) - 1 and not has_guard:
                    # last arm: exhaustive match => condition holds on this path
                    return th(f2, g2)
                return self.branch(c, f2, g2, th, lambda f3, g3: rec(i + 1, f3, g3))
            return rec(0, f, g)

        if isinstance(sv, Alt) and not all(isinstance(v, str) for _, v in sv.alts):
            alts = sv.alts

            def rec_alt(i, f, g):
                if i == len(alts) - 1:
                    return run(alts[i][1], f, g)
                return self.branch(alts[i][0], f, g, lambda f2, g2: run(alts[i][1], f2, g2), lambda f2, g2: rec_alt(i + 1, f2, g2))
            return rec_alt(0, fr, guard)
        return run(sv, fr, guard)

    def ev_return(self, e, fr, guard):
        v = self.eval(e["expr"], fr, guard) if e.get("expr") is not None else UNIT
        g = self.live(fr, guard)
        fr.retvals = fr.retvals + ((g, v),)
        fr.ret = Or(fr.ret, g)
        return NEVER

    def ev_break(self, e, fr, guard):
        if e.get("expr") is not None or e.get("label"):
            raise Unsupported("break with value/label")
        fr.brk = Or(fr.brk, self.live(fr, guard))
        return NEVER

    def ev_continue(self, e, fr, guard):
        fr.cont = Or(fr.cont, self.live(fr, guard))
        return NEVER

    def ev_try(self, e, fr, guard):
        v = self.eval(e["expr"], fr, guard)
        if isinstance(v, Alt):
            raise Unsupported("? on alternatives")
        if isinstance(v, Res):
            g = And(self.live(fr, guard), Not(v.ok))
            if not (not is_sym(g) and not g):
                fr.retvals = fr.retvals + ((g, Res(False, None, v.err)),)
                fr.ret = Or(fr.ret, g)
            return v.val
        if isinstance(v, Opt):
            g = And(self.live(fr, guard), Not(v.present))
            if not (not is_sym(g) and not g):
                fr.retvals = fr.retvals + ((g, Opt(False, None)),)
                fr.ret = Or(fr.ret, g)
            return v.val
        raise Unsupported("? on %s" % type(v).__name__)

    def loop(self, fr, guard, cond_fn, body_fn, line):
        """Unrolled loop. cond_fn(frame, guard) -> (cond, binds). The condition is evaluated (with its
        side effects) only on paths on which the loop is still running."""
        outer_brk, outer_cont = fr.brk, fr.cont
        fr.brk, fr.cont = False, False
        for it in range(self.unroll + 1):
            alive = And(Not(fr.ret), Not(fr.brk))
            if not is_sym(alive) and not alive:
                break
            last = it == self.unroll
            stop = [False]

            def iteration(f, g, last=last, stop=stop):
                c, binds = cond_fn(f, g)
                if not is_sym(c) and not c:
                    f.brk = True
                    stop[0] = True
                    return UNIT
                if last:
                    self.unwind_obl.append((And(g, c), line))
                    f.brk = True
                    return UNIT

                def th(f2, g2, binds=binds):
                    f2.vars.update(binds)
                    pos_before = self.cur_pos(f2)
                    body_fn(f2, g2)
                    pos_after = self.cur_pos(f2)
                    if pos_before is not None and pos_after is not None:
                        self.progress_obl.append((And(self.live(f2, g2), self.topos(pos_after).eq(self.topos(pos_before))), line))
                    f2.cont = False
                    return UNIT
                self.branch(c, f, g, th, lambda f2, g2: self._set_brk(f2))
                return UNIT
            self.branch(alive, fr, guard, iteration, lambda f, g: UNIT)
            if stop[0] and not is_sym(alive):
                break
            if last:
                break
        fr.brk, fr.cont = outer_brk, outer_cont

    def _set_brk(self, f):
        f.brk = True
        return UNIT

    def cur_pos(self, f):
        p = f.vars.get("parser")
        if p is None:
            p = f.vars.get("self")
        if isinstance(p, StructV) and "position" in p.fields:
            return p.fields["position"]
        return None

    def ev_while(self, e, fr, guard):
        cond = e["cond"]
        if cond["k"] == "letcond":
            def cf(f, g):
                sv = self.eval(cond["expr"], f, g)
                if isinstance(sv, Alt):
                    raise Unsupported("while-let on alternatives")
                return self.match_pat(cond["pat"], sv, f)
        else:
            def cf(f, g):
                return self.as_bool(self.eval(cond, f, g)), {}
        self.loop(fr, guard, cf, lambda f, g: self.exec_block(e["body"], f, g), e.get("line"))
        return UNIT

    def ev_for(self, e, fr, guard):
        it = self.eval(e["iter"], fr, guard)
        if hasattr(self, "iter_value"):
            it = self.iter_value(it)
        if isinstance(it, Opt):
            raise Unsupported("for over option")
        if not isinstance(it, VecV):
            raise Unsupported("for over %s" % type(it).__name__)
        outer_brk, outer_cont = fr.brk, fr.cont
        fr.brk, fr.cont = False, False
        for g_item, item in it.items:
            def th(f, g2, item=item):
                self.bind_for(e["pat"], item, f)
                self.exec_block(e["body"], f, g2)
                f.cont = False
                return UNIT
            g = self.live(fr, guard)
            self.branch(And(g_item, Not(fr.brk)) if is_sym(fr.brk) or fr.brk else g_item, fr, g, th, lambda f, g2: UNIT)
        fr.brk, fr.cont = outer_brk, outer_cont
        return UNIT

    def bind_for(self, pat, item, f):
        if pat["k"] in ("pident", "pwild", "ptuple", "pref"):
            self.bind(pat, item, f)
        else:
            raise Unsupported("for pattern %s" % pat["k"])

    def ev_struct(self, e, fr, guard):
        name = e["path"].split("::")[-1]
        if name == "Self":
            name = fr.self_ty
        if e.get("rest") is not None:
            raise Unsupported("struct update syntax")
        fields = {f["member"]: self.eval(f["expr"], fr, guard) for f in e["fields"]}
        full = e["path"].split("::")
        if len(full) >= 2 and full[-2] in self.prog.enums and full[-2] not in self.prog.structs:
            return EnumV(full[-2], full[-1], fields)
        return StructV(name, fields)

    def ev_closure(self, e, fr, guard):
        return Closure(e["inputs"], e["body"], fr, None)

    def call_closure(self, cl, args, fr, guard):
        f = cl.frame.copy()
        if len(cl.params) != len(args):
            raise Unsupported("closure arity")
        for p, a in zip(cl.params, args):
            self.bind(p, a, f)
        return self.eval(cl.body, f, guard)

    def ev_macro(self, e, fr, guard):
        name = e["name"].split("::")[-1]
        if name == "vec":
            if e.get("args") is None:
                raise Unsupported("vec! form")
            return VecV(tuple((True, self.eval(x, fr, guard)) for x in e["args"]))
        if name == "format":
            args = e.get("args")
            if not args or args[0]["k"] != "lit":
                return Opaque("format")
            tmpl = args[0]["lit"]["v"]
            vals = [self.eval(a, fr, guard) for a in args[1:]]
            return self.format(tmpl, vals, fr)
        if name in ("println", "eprintln", "debug", "trace", "info", "warn", "error", "debug_assert", "debug_assert_eq"):
            return UNIT
        if name == "matches":
            raise Unsupported("matches!")
        raise Unsupported("macro %s!" % name)

    def format(self, tmpl, vals, fr):
        outs = [(True, "")]
        vi = 0
        for kind, p in fmt_pieces(tmpl):
            if kind == "arg":
                inner = p
                if inner == "":
                    if vi >= len(vals):
                        return Opaque("format")
                    v = vals[vi]
                    vi += 1
                elif inner in fr.vars:
                    v = fr.vars[inner]
                else:
                    return Opaque("format")
                if isinstance(v, int) and not isinstance(v, bool):
                    v = str(v)
                alts = alt_of(v)
                if not all(isinstance(x, str) for _, x in alts):
                    return Opaque("format")
                outs = [(And(g1, g2), s1 + s2) for g1, s1 in outs for g2, s2 in alts]
            else:
                outs = [(g, s + p) for g, s in outs]
        return mk_alt(outs)

    # -- calls ----------------------------------------------------------------------------------
    def resolve_ty(self, name, fr):
        if name == "Self":
            return fr.self_ty
        return self.prog.resolve_type(fr.generics.get(name, name))

    def ev_call(self, e, fr, guard):
        f = e["func"]
        if f["k"] != "path":
            fv = self.eval(f, fr, guard)
            if isinstance(fv, Closure):
                return self.call_closure(fv, [self.eval(a, fr, guard) for a in e["args"]], fr, guard)
            raise Unsupported("call of non-path")
        path = f["path"]
        parts = path.split("::")
        name = parts[-1]
        if path in fr.vars and isinstance(fr.vars[path], Closure):
            return self.call_closure(fr.vars[path], [self.eval(a, fr, guard) for a in e["args"]], fr, guard)
        # constructors
        if name == "Some" and len(parts) == 1:
            return Opt(True, self.eval(e["args"][0], fr, guard))
        if name == "Ok" and len(parts) == 1:
            return Res(True, self.eval(e["args"][0], fr, guard), None)
        if name == "Err" and len(parts) == 1:
            return Res(False, None, self.eval(e["args"][0], fr, guard))
        if path in ("Box::new", "String::from", "std::convert::identity"):
            return self.eval(e["args"][0], fr, guard)
        if path in ("Vec::new", "Vec::with_capacity", "HashMap::new", "std::collections::HashMap::new"):
            return VecV(())
        if path == "String::new":
            return ""
        if path in ("HashSet::new", "std::collections::HashSet::new"):
            return SetV({})
        if len(parts) >= 2:
            qself = f.get("qself")
            ty = self.resolve_ty(parts[-2], fr) if not qself else self.resolve_ty(qself.split("::")[-1], fr)
            # enum variant constructor?
            if ty in self.prog.enums and any(v["name"] == name for v in self.prog.enums[ty]["variants"]):
                args = [self.eval(a, fr, guard) for a in e["args"]]
                if self.prog.is_field_type(ty) and len(args) == 1 and isinstance(args[0], FieldV):
                    return FieldV(args[0].idx, ty, name)
                if self.prog.is_field_type(ty) and len(args) == 1 and getattr(self, "cur_tok", None):
                    # a variant built by hand from the content of the token being parsed
                    return FieldV(self.cur_tok[-1], ty, name)
                return EnumV(ty, name, args)
            # field type associated functions
            if self.prog.is_field_type(ty) and name in ("parse", "parse_with_variant"):
                args = [self.eval(a, fr, guard) for a in e["args"]]
                return self.field_parse(ty, name, args, fr, guard)
            prefer_inherent = not qself
            m = self.prog.method(ty, name, prefer_inherent)
            if m is not None:
                return self.invoke(m, e["args"], fr, guard, ty, f.get("generics"))
            if ty == "MessageParser" and name == "new":
                m = self.prog.method("MessageParser", "new")
        fn = self.prog.free.get(name)
        if fn is not None:
            return self.invoke((fn[0], fn[1], None), e["args"], fr, guard, fr.self_ty, f.get("generics"))
        raise Unsupported("call to unknown function %s (line %s)" % (path, e.get("line")))

    def invoke(self, m, arg_exprs, fr, guard, self_ty, turbofish=None, recv=None, recv_expr=None):
        fn = m[0]
        name = fn["sig"]["name"]
        if name == "extract_field_content" and m[2] is None:
            args = [self.eval(a, fr, guard) for a in arg_exprs]
            return self.prim_extract(args)
        if m[2] is None and ("fields/swift_utils.rs" in str(m[1]) or "fields/field_utils.rs" in str(m[1])):
            args = [self.eval(a, fr, guard) for a in arg_exprs]
            if any(self.is_content(a) for a in args):
                ret = m[0]["sig"].get("ret", "")
                if ret.startswith("Result") or "::Result" in ret:
                    return Res(self.fresh_bool(), Opaque("content.value"), Opaque("content.error"))
                if ret == "bool":
                    return self.fresh_bool()
                return Opaque("content.value")
        if name in TOKEN_LEVEL_IDENTITY and m[2] is None:
            # byte-level trimming of the serialised text; invisible at token level (decided by Kani at byte level)
            return self.eval(arg_exprs[0], fr, guard)
        params = fn["sig"]["params"]
        args = []
        exprs = []
        if recv is not None:
            args.append(recv)
            exprs.append(recv_expr)
        for a in arg_exprs:
            args.append(self.eval(a, fr, guard))
            exprs.append(a)
        generics = {}
        gnames = [g.split(":")[0].strip() for g in fn["sig"].get("generics", []) if not g.strip().startswith("'")]
        if turbofish:
            for gn, tv in zip(gnames, turbofish):
                generics[gn] = self.resolve_ty(tv, fr)
        elif gnames:
            # infer generic params from field-typed arguments (append_field<T>(.., field: &T))
            pass
        val, final = self.call_fn(fn, args, self.live(fr, guard), self_ty=m[2] or self_ty, generics=generics)
        # write back &mut parameters
        for p, ex in zip(params, exprs):
            pname = p["name"].replace("mut ", "").strip()
            pty = p["ty"]
            if ex is None:
                continue
            is_mut_ref = pty.startswith("&mut") or pty.replace(" ", "").startswith("&mutself")
            if is_mut_ref and pname in final:
                tgt = ex
                while tgt["k"] in ("ref", "unary"):
                    tgt = tgt["expr"]
                if tgt["k"] in ("path", "field"):
                    self.assign(tgt, final[pname], fr, guard)
        return val

    def ev_mcall(self, e, fr, guard):
        meth = e["method"]
        recv = self.eval(e["recv"], fr, guard)
        # user-defined methods on struct values
        if isinstance(recv, StructV):
            m = self.prog.method(recv.name, meth)
            if m is not None:
                fn = m[0]
                p0 = fn["sig"]["params"][0]["ty"] if fn["sig"]["params"] else ""
                # `mut self` by value returning Self (builder) is handled by normal return value
                return self.invoke(m, e["args"], fr, guard, recv.name, e.get("turbofish"), recv=recv, recv_expr=e["recv"])
        args = [self.eval(a, fr, guard) for a in e["args"]]
        return self.builtin_method(recv, meth, args, e, fr, guard)

    def builtin_method(self, recv, meth, args, e, fr, guard):
        if isinstance(recv, Alt) and meth not in ("to_string", "clone", "as_str", "to_owned", "as_ref"):
            vals = [(g, self.builtin_method(v, meth, args, e, fr, guard)) for g, v in recv.alts]
            out = vals[-1][1]
            for g, v in reversed(vals[:-1]):
                out = merge(g, v, out)
            return out
        if meth in ("to_string", "clone", "as_str", "to_owned", "as_ref", "as_mut", "iter", "into_iter", "as_deref",
                    "borrow", "into", "iter_mut", "to_vec"):
            return recv
        if isinstance(recv, VecV):
            if meth == "push":
                tgt = e["recv"]
                self.assign(tgt, VecV(recv.items + ((self.live(fr, guard), args[0]),)), fr, guard)
                return UNIT
            if meth == "is_empty":
                return Not(Or(*[g for g, _ in recv.items]))
            if meth == "len":
                s = 0
                for g, _ in recv.items:
                    s = s + (If(g, 1, 0) if is_sym(g) else (1 if g else 0))
                return s
            if meth == "contains":
                return Or(*[And(g, self.equals(v, args[0])) for g, v in recv.items])
            if meth == "join":
                return Opaque("join")
        if isinstance(recv, Opt):
            if meth == "is_some":
                return recv.present
            if meth == "is_none":
                return Not(recv.present)
            if meth == "unwrap_or":
                if not is_sym(recv.present):
                    return recv.val if (recv.present and recv.val is not None) else args[0]
                return merge(B(recv.present), recv.val, args[0]) if recv.val is not None else args[0]
            if meth in ("unwrap", "expect"):
                self.oblige(fr, guard, recv.present, "Option::%s on None (line %s)" % (meth, e.get("line")))
                return recv.val
            if meth == "map":
                if not isinstance(args[0], Closure):
                    raise Unsupported("map with non-closure")
                if recv.val is None:
                    return Opt(False, None)
                return Opt(recv.present, self.call_closure(args[0], [recv.val], fr, And(guard, recv.present)))
            if meth in ("ok_or", "ok_or_else"):
                err = args[0]
                if isinstance(err, Closure):
                    err = self.call_closure(err, [], fr, guard)
                return Res(recv.present, recv.val, err)
            if meth == "take":
                self.assign(e["recv"], Opt(False, None), fr, guard)
                return recv
        if isinstance(recv, Res):
            if meth == "map_err":
                if not isinstance(args[0], Closure):
                    return Res(recv.ok, recv.val, Opaque("mapped-error"))
                nerr = self.call_closure(args[0], [recv.err if recv.err is not None else Opaque("err")], fr, And(guard, Not(recv.ok)))
                return Res(recv.ok, recv.val, nerr)
            if meth == "is_ok":
                return recv.ok
            if meth == "is_err":
                return Not(recv.ok)
            if meth == "ok":
                return Opt(recv.ok, recv.val)
            if meth in ("unwrap", "expect"):
                self.oblige(fr, guard, recv.ok, "Result::%s on Err (line %s)" % (meth, e.get("line")))
                return recv.val
            if meth == "map":
                if not isinstance(args[0], Closure) or recv.val is None:
                    raise Unsupported("Result::map form")
                return Res(recv.ok, self.call_closure(args[0], [recv.val], fr, And(guard, recv.ok)), recv.err)
        if isinstance(recv, SetV):
            if meth == "contains":
                return Or(*[And(g, recv.m.get(s, False)) for g, s in alt_of(args[0])])
            if meth == "insert":
                nm = dict(recv.m)
                for g, s in alt_of(args[0]):
                    if not isinstance(s, str):
                        raise Unsupported("set insert of non-string")
                    nm[s] = Or(nm.get(s, False), And(self.live(fr, guard), g))
                self.assign(e["recv"], SetV(nm), fr, guard)
                return True
        if isinstance(recv, RemV):
            if meth in ("trim", "trim_start", "trim_end", "trim_start_matches", "trim_end_matches"):
                return recv
            if meth == "is_empty":
                return self.at_end(recv.pos)
            if meth == "strip_prefix" and args and args[0] == ":":
                # every token starts with ':'; at the end of the input there is nothing to strip
                return Opt(Not(self.at_end(recv.pos)), RemTail(recv.pos))
            if meth == "starts_with":
                conds = []
                for g, s in alt_of(args[0]):
                    if not (isinstance(s, str) and len(s) >= 3 and s[0] == ":" and s[-1] == ":" and ":" not in s[1:-1]):
                        raise Unsupported("starts_with(%r) on remaining text is not a field marker" % (s,))
                    conds.append(And(g, self.tag_is(recv.pos, s[1:-1])))
                return Or(*conds)
        if isinstance(recv, RemTail):
            if meth == "starts_with":
                conds = []
                for g, sx in alt_of(args[0]):
                    if not isinstance(sx, str) or ":" in sx[:-1]:
                        raise Unsupported("starts_with(%r) after the opening colon of a field" % (sx,))
                    p = z3.Bool("prefix_%d" % len(self.deferred_prefix))
                    self.deferred_prefix.append((p, self.topos(recv.pos), sx))
                    conds.append(And(g, p))
                return Or(*conds)
        if isinstance(recv, InputV):
            if meth == "len":
                return LenV()
        if isinstance(recv, str):
            if meth == "is_empty":
                return recv == ""
            if meth == "len":
                return len(recv)
            if meth == "starts_with" and isinstance(args[0], str):
                return recv.startswith(args[0])
            if meth == "push_str" or meth == "push":
                self.assign(e["recv"], self.str_append(recv, args[0], fr, guard), fr, guard)
                return UNIT
        if isinstance(recv, EmitV):
            if meth == "push_str" or meth == "push":
                self.assign(e["recv"], self.str_append(recv, args[0], fr, guard), fr, guard)
                return UNIT
        if isinstance(recv, FieldV):
            if meth == "to_swift_string":
                return FieldEmit(recv)
            ty = self.prog.resolve_type(recv.ty)
            m = self.prog.fns.get((ty, meth, True)) or self.prog.fns.get((ty, meth, False))
            if m is not None and meth not in ("parse", "parse_with_variant"):
                val, _ = self.call_fn(m[0], [recv] + list(args), self.live(fr, guard), self_ty=ty)
                return val
            if meth == "get_variant_tag":
                return Opt(False, None)      # trait default
        if isinstance(recv, TokRef):
            # inspection of a field's content: uninterpreted (one free Bool per predicate and token)
            if meth in ("contains", "starts_with", "ends_with", "is_empty", "is_ascii"):
                key = "%s(%s)" % (meth, ",".join(repr(a) for a in args if isinstance(a, (str, int))))
                return self.content_pred(key, recv.idx)
            if meth in ("lines", "chars", "split", "trim", "len", "bytes", "as_bytes", "split_whitespace", "char_indices"):
                return Opaque("content." + meth)
        if isinstance(recv, Opaque) and recv.what.startswith("content"):
            if meth in ("all", "any", "is_some", "is_none", "is_ok", "is_err", "is_empty", "contains", "starts_with", "ends_with",
                        "is_ascii_digit", "is_ascii_uppercase", "is_ascii_alphabetic", "is_ascii_alphanumeric", "is_some_and"):
                return self.fresh_bool()
            return Opaque("content." + meth)
        if isinstance(recv, FieldEmit) and meth == "strip_prefix" and args and args[0] == ":":
            return Opt(True, EmitTail(recv.fv))
        if isinstance(recv, EmitTail) and meth == "starts_with":
            conds = []
            for g, s in alt_of(args[0]):
                if not isinstance(s, str):
                    raise Unsupported("starts_with on a serialised field")
                for ga, t in self.emit_tag_alts(recv.fv):
                    full = t + ":"
                    if full.startswith(s):
                        conds.append(And(g, ga))
                    elif s.startswith(full):
                        raise Unsupported("starts_with(%r) looks into the content of a serialised field" % (s,))
            return Or(*conds)
        if isinstance(recv, FieldEmit):
            if meth == "starts_with":
                conds = []
                for g, s in alt_of(args[0]):
                    if not (isinstance(s, str) and len(s) >= 3 and s[0] == ":" and s[-1] == ":" and ":" not in s[1:-1]):
                        raise Unsupported("starts_with(%r) on a serialised field is not a field marker" % (s,))
                    conds.append(And(g, Or(*[ga for ga, t in self.emit_tag_alts(recv.fv) if t == s[1:-1]])))
                return Or(*conds)
        if isinstance(recv, (Opaque, TokRef)) and meth in ("len", "is_empty", "trim", "lines", "chars"):
            return Opaque(meth)
        raise Unsupported("method .%s on %s (line %s)" % (meth, type(recv).__name__, e.get("line")))

    def str_append(self, base, piece, fr, guard):
        g = self.live(fr, guard)
        items = base.items if isinstance(base, EmitV) else (((True, base),) if base != "" else ())
        return EmitV(items + ((g, piece),))

    def emit_tag_alts(self, fv):
        """Tag that the serialiser of a parsed field value emits, as guarded alternatives of strings
        (read from the to_swift_string bodies: layout.field_tags)."""
        ty = self.prog.resolve_type(fv.ty)
        if ty in self.prog.enums:
            alts = []
            for g, v in alt_of(fv.variant):
                inner = self.prog.resolve_type(self.variant_inner(ty, v))
                if inner not in self.field_tags:
                    raise Unsupported("no serialiser tag known for %s" % inner)
                alts.append((g, self.field_tags[inner]))
            return alts
        if ty not in self.field_tags:
            raise Unsupported("no serialiser tag known for %s" % ty)
        return [(True, self.field_tags[ty])]

    # -- primitives -------------------------------------------------------------------------------
    def prim_extract(self, args):
        rem, tag = args
        if not isinstance(rem, RemV):
            raise Unsupported("extract_field_content on %s" % type(rem).__name__)
        found, j = self.first_from(rem.pos, tag)
        return Opt(found, TupleV((TokRef(j), ConsumedV(j.succ()))))

    def field_parse(self, ty, name, args, fr, guard):
        content = args[0]
        if not isinstance(content, TokRef):
            raise Unsupported("%s::%s on %s" % (ty, name, type(content).__name__))
        if name == "parse_with_variant":
            m = self.prog.fns.get((ty, "parse_with_variant", True))
            if m is not None:
                if not hasattr(self, "cur_tok"):
                    self.cur_tok = []
                self.cur_tok.append(content.idx)
                try:
                    val, _ = self.call_fn(m[0], args, self.live(fr, guard), self_ty=ty)
                finally:
                    self.cur_tok.pop()
                return val
            # trait default: Self::parse(value)
        # enum `parse` (no option letter): run its body when it only dispatches on the member parsers;
        # content-inspecting heuristics are left uninterpreted below
        if ty in self.prog.enums and name == "parse":
            m = self.prog.fns.get((ty, "parse", True))
            if m is not None:
                snap = (len(self.unwind_obl), len(self.progress_obl), len(self.heur_used), len(self.side), self.depth)
                if not hasattr(self, "cur_tok"):
                    self.cur_tok = []
                self.cur_tok.append(content.idx)
                try:
                    val, _ = self.call_fn(m[0], [content], self.live(fr, guard), self_ty=ty)
                    if isinstance(val, Res):
                        return val
                    raise Unsupported("enum parse did not evaluate to a Result")
                except Unsupported:
                    self.cur_tok.pop()
                    self.cur_tok.append(None)
                    del self.unwind_obl[snap[0]:]
                    del self.progress_obl[snap[1]:]
                    del self.heur_used[snap[2]:]
                    del self.side[snap[3]:]
                    self.depth = snap[4]
                finally:
                    self.cur_tok.pop()
        if ty in self.prog.enums:
            variants = [v["name"] for v in self.prog.enums[ty]["variants"]]
            self.fresh += 1
            var = mk_alt([(self.heur_is(ty, content.idx, k), v) for k, v in enumerate(variants)])
            self.heur_used.append((self.live(fr, guard), ty, content.idx, var))
            return Res(self.ok(ty, content.idx), FieldV(content.idx, ty, var), Opaque("field-parse-error"))
        return Res(self.ok(ty, content.idx), FieldV(content.idx, ty, None), Opaque("field-parse-error"))
