"""Field level (C02 / C05): the real `parse` and `to_swift_string` of each field struct type executed from
source on a symbolic multi-line text (z3 strings): re-parsing the serialised value gives the same value and the
same text (fixed point), and no line of the input is silently dropped."""
import json
import multiprocessing as mp
import os
import sys
import time
import traceback

HERE = os.path.dirname(os.path.abspath(__file__))
sys.path.insert(0, HERE)
sys.path.insert(0, os.path.join(os.path.dirname(HERE), "lib"))

import z3  # noqa
import layout as layout_mod  # noqa
from structsym import *  # noqa
import structsym  # noqa


class FieldMachine(StructMachine):
    def __init__(self, prog, L=6):
        super().__init__(prog, K=L)
        self.L = L

    def text(self, name, n=None):
        lines = [z3.String("%s_line%d" % (name, k)) for k in range(self.L)]
        assert self.L <= structsym.TEXT_LMAX
        count = z3.Int("%s_lines" % name) if n is None else z3.IntVal(n)
        cls = no_newline_re()
        self.constraints += [count >= 1, count <= self.L]
        for k, l in enumerate(lines):
            self.constraints += [z3.InRe(l, cls), z3.Length(l) <= 40]
        for k in range(1, self.L):
            # a multi-line text does not end with an empty line (contents are trimmed by the message parser)
            self.constraints.append(z3.Implies(count == k + 1, z3.Length(lines[k]) > 0))
        for k in range(self.L):
            self.constraints.append(z3.Implies(count <= k, lines[k] == z3.StringVal("")))
        return TextV(lines, count)

    # amounts: parsing and formatting are uninterpreted (their decimal pipeline is C06's subject); the pair is
    # assumed to be an inverse pair on the texts the formatter produces
    def invoke(self, m, arg_exprs, fr, guard, self_ty, turbofish=None, recv=None, recv_expr=None):
        name = m[0]["sig"]["name"]
        if m[2] is None and name in ("parse_amount", "parse_amount_with_currency"):
            args = [self.eval(a, fr, guard) for a in arg_exprs]
            sz = to_strz(args[0])
            if not hasattr(self, "_amt_ok"):
                self._amt_ok = z3.Function("amount_ok", z3.StringSort(), z3.BoolSort())
                self._amt_val = z3.Function("amount_val", z3.StringSort(), z3.Float64())
                self.amount_texts = []
            return Res(self._amt_ok(sz), FPV(self._amt_val(sz)), Opaque("amount-error"))
        if m[2] is None and name == "validate_amount_decimals":
            for a in arg_exprs:
                self.eval(a, fr, guard)
            if not hasattr(self, "_dec_ok"):
                self._dec_ok = z3.Function("decimals_ok", z3.Float64(), z3.StringSort(), z3.BoolSort())
            args = [self.eval(a, fr, guard) for a in arg_exprs]
            return Res(self._dec_ok(to_fp(args[0]), to_strz(args[1])), UNIT, Opaque("decimals-error"))
        return super().invoke(m, arg_exprs, fr, guard, self_ty, turbofish, recv, recv_expr)


def val_eq(a, b):
    """structural equality of two interpreter values (z3 Bool)"""
    if isinstance(a, Opt) and isinstance(b, Opt):
        if a.val is None or b.val is None:
            return And(Not(a.present), Not(b.present)) if (a.val is None and b.val is None) else \
                And(B(a.present) == B(b.present), Not(a.present))
        return And(B(a.present) == B(b.present), Or(Not(a.present), val_eq(a.val, b.val)))
    if isinstance(a, VecV) and isinstance(b, VecV):
        # compare as sequences of present elements
        def ranked(v):
            out, rank = [], 0
            for g, x in v.items:
                out.append((g, rank, x))
                rank = rank + (If(g, 1, 0) if is_sym(g) else (1 if g else 0))
            return out, rank
        ra, na = ranked(a)
        rb, nb = ranked(b)
        conds = [na == nb]
        for ga, ka, xa in ra:
            for gb, kb, xb in rb:
                conds.append(Or(Not(And(ga, gb, ka == kb)), val_eq(xa, xb)))
        return And(*conds)
    if isinstance(a, StructV) and isinstance(b, StructV):
        return And(*[val_eq(a.fields[k], b.fields[k]) for k in a.fields])
    if isinstance(a, (StrZ, str, ChronoStr)) or isinstance(b, (StrZ, str, ChronoStr)):
        return to_strz(a) == to_strz(b)
    if isinstance(a, FPV) and isinstance(b, FPV):
        return z3.fpEQ(a.f, b.f)
    if isinstance(a, DateV) and isinstance(b, DateV):
        return And(a.y == b.y, a.m == b.m, a.d == b.d)
    if isinstance(a, TimeV) and isinstance(b, TimeV):
        return And(a.h == b.h, a.mi == b.mi)
    if isinstance(a, Alt) or isinstance(b, Alt):
        return Or(*[And(g1, g2, val_eq(x, y)) for g1, x in alt_of(a) for g2, y in alt_of(b)])
    if is_sym(a) or is_sym(b) or isinstance(a, (int, bool)):
        return a == b
    raise Unsupported("cannot compare %s with %s" % (type(a).__name__, type(b).__name__))


def check_type(prog, ty, tag, L=6, timeout_ms=10000):
    """one case per concrete number of input lines (1..L): keeps the line structure of the text concrete"""
    res = []
    flat = check_type_flat(prog, ty, tag, timeout_ms)
    if flat is not None:
        return flat
    for n in range(1, L + 1):
        rs = check_type_n(prog, ty, tag, L, n, timeout_ms)
        res += rs
        if rs and rs[0]["verdict"] in ("not-encoded", "error"):
            break
        if any(r["verdict"] == "unknown" for r in rs):
            break      # larger inputs will not be decided either
    return res


def check_type_flat(prog, ty, tag, timeout_ms):
    """parsers that treat their input as one string (no `lines()`): the input is an arbitrary z3 string (newlines
    included); the serialised content is fed back as a plain string. Returns None when the parser needs lines."""
    from common import replay_batch
    t0 = time.time()
    try:
        m = FieldMachine(prog, 1)
        parse = prog.fns[(ty, "parse", True)][0]
        ser = prog.fns[(ty, "to_swift_string", True)][0]
        sv = z3.String("in_flat")
        m.constraints += [z3.Length(sv) <= 80, z3.InRe(sv, z3.Star(z3.Union(z3.Range(" ", "~"), z3.Re("\n"), z3.Range(chr(0xA0), chr(0xFF)))))]
        r1, _ = m.call_fn(parse, [StrZ(sv)], True, self_ty=ty)
        if not isinstance(r1, Res) or r1.val is None:
            return None
        out1, _ = m.call_fn(ser, [r1.val], True, self_ty=ty)
        o1 = to_strz(out1)
        tagp = ":%s:" % tag
        c1 = z3.SubString(o1, len(tagp), z3.Length(o1) - len(tagp))
        r2, _ = m.call_fn(parse, [StrZ(c1)], True, self_ty=ty)
        if r2.val is None:
            return None
        out2, _ = m.call_fn(ser, [r2.val], True, self_ty=ty)
        o2 = to_strz(out2)
        same_val = val_eq(r1.val, r2.val)
    except Unsupported:
        return None
    except Exception:
        return None
    build_s = time.time() - t0
    res = []

    def solve(name, extra, judge):
        s = z3.Solver()
        s.set("timeout", timeout_ms)
        s.add(B(r1.ok), *m.constraints)
        s.add(*[B(x) for x in extra])
        t1 = time.time()
        r = s.check()
        rec = {"type": ty, "query": "any input string: " + name, "verdict": str(r), "time_s": round(time.time() - t1, 2), "build_s": round(build_s, 2)}
        if r == z3.sat:
            text = structsym._zstr(s.model().eval(sv, model_completion=True))
            real = replay_batch([{"op": "field_roundtrip", "type": ty, "content": text}], "dev")[0]
            why = judge(text, real)
            rec["witness"] = {"type": ty, "content": text, "real": real, "why": why}
            if not why:
                rec["verdict"] = "sat-not-reproduced"
        res.append(rec)

    def judge_rt(text, real):
        if not real.get("ok"):
            return None
        if not str(real.get("swift", "")).startswith(tagp):
            return "serialised as %r" % real.get("swift")
        if not real.get("reparse_ok"):
            return "accepted %r, serialised as %r, which the parser rejects: %s" % (text, real.get("swift"), real.get("reparse_error"))
        if not real.get("same_value") or real.get("swift") != real.get("swift2"):
            return "accepted %r -> %r -> re-parsed value differs or second serialisation is %r" % (text, real.get("swift"), real.get("swift2"))
        return None
    solve("serialisation starts with the tag", [z3.Not(z3.PrefixOf(z3.StringVal(tagp), o1))], judge_rt)
    solve("parse(serialise(parse(s))) = parse(s) and serialise is a fixed point", [z3.Not(And(r2.ok, same_val, o2 == o1))], judge_rt)
    return res


def check_type_n(prog, ty, tag, L, n, timeout_ms):
    from common import replay_batch
    res = []
    t0 = time.time()
    try:
        m = FieldMachine(prog, L)
        parse = prog.fns[(ty, "parse", True)][0]
        ser = prog.fns[(ty, "to_swift_string", True)][0]
        s1 = m.text("in", n)
        arg1 = LineZ(s1.lines[0]) if n == 1 else s1      # a one-line text is a newline-free string
        r1, _ = m.call_fn(parse, [arg1], True, self_ty=ty)
        if not isinstance(r1, Res) or r1.val is None:
            raise Unsupported("parse did not evaluate to a Result with a value")
        out1, _ = m.call_fn(ser, [r1.val], True, self_ty=ty)
        t1 = TextV.of(out1)
        if t1 is None:
            raise Unsupported("to_swift_string does not build its text from line-structured pieces (%s)" % type(out1).__name__)
        tagp = ":%s:" % tag
        prefix_ok = z3.PrefixOf(z3.StringVal(tagp), t1.lines[0])
        # content = serialised text without the tag: this is what is fed back to parse
        c0 = z3.SubString(t1.lines[0], len(tagp), z3.Length(t1.lines[0]) - len(tagp))
        s2 = TextV([c0] + t1.lines[1:], t1.count)
        sc = z3.simplify(t1.count)
        arg2 = LineZ(c0) if (z3.is_int_value(sc) and sc.as_long() == 1) else s2
        r2, _ = m.call_fn(parse, [arg2], True, self_ty=ty)
        if r2.val is None:
            raise Unsupported("second parse has no value")
        out2, _ = m.call_fn(ser, [r2.val], True, self_ty=ty)
        t2 = TextV.of(out2)
        if t2 is None:
            raise Unsupported("second serialisation is not line-structured")
        same_val = val_eq(r1.val, r2.val)
        same_text = t1.text_eq(t2)
        # number of lines Rust's lines() sees in the input and in the serialised content
        def nlines(t):
            return sum([If(g, 1, 0) for g, _ in t.line_items()])
        n_in, n_out = nlines(s1), nlines(s2)
    except Unsupported as e:
        return [{"type": ty, "query": "encode parse/to_swift_string", "verdict": "not-encoded", "detail": str(e)[:300], "time_s": 0}]
    except Exception:
        return [{"type": ty, "query": "encode parse/to_swift_string", "verdict": "error", "detail": traceback.format_exc()[-800:], "time_s": 0}]
    build_s = time.time() - t0
    # axioms for the amount inverse pair, instantiated on the texts the formatter produced
    axioms = []
    base = [B(r1.ok)] + m.constraints + axioms

    def solve(name, extra, judge):
        s = z3.Solver()
        s.set("timeout", timeout_ms)
        s.add(*base)
        s.add(*[B(x) for x in extra])
        t1 = time.time()
        r = s.check()
        rec = {"type": ty, "query": "%d-line input: %s" % (n, name), "verdict": str(r), "time_s": round(time.time() - t1, 2), "build_s": round(build_s, 2), "L": L}
        if r == z3.sat:
            model = s.model()
            nn = model.eval(s1.count, model_completion=True).as_long()
            text = "\n".join(structsym._zstr(model.eval(s1.lines[k], model_completion=True)) for k in range(nn))
            real = replay_batch([{"op": "field_roundtrip", "type": ty, "content": text}], "dev")[0]
            why = judge(text, real)
            rec["witness"] = {"type": ty, "content": text, "real": real, "why": why}
            if not why:
                rec["verdict"] = "sat-not-reproduced"
        res.append(rec)

    def judge_rt(text, real):
        if not real.get("ok"):
            return None
        if not real.get("reparse_ok"):
            return "accepted %r, serialised as %r, which the parser rejects: %s" % (text, real.get("swift"), real.get("reparse_error"))
        if not real.get("same_value") or real.get("swift") != real.get("swift2"):
            return "accepted %r -> %r -> re-parsed value differs or second serialisation is %r" % (text, real.get("swift"), real.get("swift2"))
        return None

    def judge_lines(text, real):
        if not real.get("ok"):
            return None
        c = real.get("swift", "")[len(tag) + 2:]
        if len(c.splitlines()) != len(text.splitlines()):
            return "accepted %r (%d lines) but serialises %d lines: %r" % (text, len(text.split("\n")), len(c.split("\n")), real.get("swift"))
        return None

    # (1) the serialisation of an accepted value carries the tag, and its content is a well-formed content text
    solve("serialisation starts with the tag", [z3.Not(prefix_ok)], lambda t, r: None if not r.get("ok") or str(r.get("swift", "")).startswith(":%s:" % tag) else "serialised as %r" % r.get("swift"))
    # (2) round trip / fixed point: feed the serialised content back
    solve("parse(serialise(parse(s))) = parse(s) and serialise is a fixed point",
          [z3.Not(And(r2.ok, same_val, same_text))], judge_rt)
    # (2b) the serialised content is always a representable content (no trailing newline / empty content)
    # (3) nothing dropped: the serialised content has as many lines as the input
    solve("no input line is dropped by an accepting parse", [n_in != n_out], judge_lines)
    return res


def _worker(args):
    ty, tag, L = args
    try:
        prog = Program(layout_mod.extract_ast())
        return check_type(prog, ty, tag, L)
    except Exception:
        return [{"type": ty, "query": "field", "verdict": "error", "detail": traceback.format_exc()[-1200:], "time_s": 0}]


# field types on which every round-trip query is answered within the time limit (drawn up on the pinned tree; the other types
# are outside this check's claim: their queries come back `unknown` or their parser uses operations that are not encoded)
DECIDED = ["Field12", "Field20", "Field21C", "Field21D", "Field21E", "Field21F", "Field21NoOption", "Field21R", "Field23B", "Field25A",
           "Field25NoOption", "Field26T", "Field50C", "Field50L", "Field50NoOption", "Field52C", "Field53B", "Field54B", "Field55B",
           "Field56C", "Field57C", "Field58A", "Field70", "Field71A", "Field71B", "Field72", "Field77B", "Field77T"]


def run(L=6, jobs=14, only=None, decided_only=False):
    prog = Program(layout_mod.extract_ast())
    tags, bad = layout_mod.field_tags(prog)
    if decided_only:
        only = DECIDED
    types = [t for t in sorted(tags) if not only or t in only]
    with mp.Pool(min(jobs, max(1, len(types)))) as pool:
        outs = pool.map(_worker, [(t, tags[t], L) for t in types], chunksize=1)
    return [r for o in outs for r in o]


if __name__ == "__main__":
    only = sys.argv[1:]
    t0 = time.time()
    rs = run(only=only)
    enc = set(r["type"] for r in rs if r["verdict"] not in ("not-encoded", "error"))
    for r in rs:
        print("%-18s %-18s %6.2fs %s %s" % (r["type"], r["verdict"], r.get("time_s", 0), r["query"][:50], json.dumps(r.get("witness", {}).get("why") or r.get("detail") or "")[:260]))
    print("encoded types:", len(enc), "total %.1fs" % (time.time() - t0))
