"""C17: reject / return / cover / stp classification, executed from source on symbolic instances."""
import json
import os
import sys
import time

HERE = os.path.dirname(os.path.abspath(__file__))
sys.path.insert(0, HERE)
sys.path.insert(0, os.path.join(os.path.dirname(HERE), "lib"))

import z3  # noqa
import layout as layout_mod  # noqa
from structsym import *  # noqa
import structsym  # noqa
from rulecheck import Inst  # noqa

REJECT_WORDS = ["/REJT/", "/RJT/"]
RETURN_WORDS = ["/RETN/", "/RET/"]
COVER_WORDS_205 = ["/COV/", "/COVER/"]
F72 = {"MT103": "field_72", "MT202": "field_72", "MT205": "sender_to_receiver"}


_W = REJECT_WORDS + RETURN_WORDS + COVER_WORDS_205
VOCAB = ["", "X", "/XYZ/"] + _W + [a + b for a in _W for b in _W if a != b] + [a[:-1] + b for a in _W for b in _W if a != b] + \
    ["AB" + a + "CD" for a in _W] + [a.lower() for a in _W]


def line_terms(I, ty):
    return [it.s() for _, it in lines_of(I, ty)[0]]


def lines_of(I, ty):
    return I.f(F72[ty]).some().f("information").items(), I.f(F72[ty]).present()


def ref_words(I, ty, words):
    items, pres = lines_of(I, ty)
    return And(pres, Or(*[And(g, Or(*[z3.Contains(it.s(), z3.StringVal(w)) for w in words])) for g, it in items]))


def _subterms(t, acc, seen):
    if t.get_id() in seen:
        return
    seen.add(t.get_id())
    acc.append(t)
    for c in t.children():
        _subterms(c, acc, seen)


def contains_abstraction(formulas, lines, timeout_ms):
    """(verdict, solver-with-model) for And(formulas) where the string variables `lines` occur only in Contains(line, literal)."""
    line_ids = {ln.get_id(): ln for ln in lines}
    terms, seen = [], set()
    for f in formulas:
        _subterms(f if z3.is_expr(f) else z3.BoolVal(bool(f)), terms, seen)
    atoms = {}
    for t in terms:
        if z3.is_app(t) and t.decl().kind() == z3.Z3_OP_SEQ_CONTAINS and t.arg(0).get_id() in line_ids and z3.is_string_value(t.arg(1)):
            atoms[t.get_id()] = (t, t.arg(0), t.arg(1).as_string())
    subst = [(t, z3.Bool("has_%d_%d" % (ln.get_id(), k))) for k, (t, ln, w) in enumerate(atoms.values())]
    abstr = [z3.substitute(f, *subst) if z3.is_expr(f) else f for f in formulas]
    rest, seen2 = [], set()
    for f in abstr:
        if z3.is_expr(f):
            _subterms(f, rest, seen2)
    if any(t.get_id() in line_ids for t in rest):
        return z3.unknown, None          # a line is used in some other way: the abstraction does not apply
    s2 = z3.Solver()
    s2.set("timeout", timeout_ms)
    s2.add(*abstr)
    for _ in range(64):
        r = s2.check()
        if r != z3.sat:
            return r, None
        mdl = s2.model()
        vals, block = [], []
        realisable = True
        for ln in lines:
            mine = [(b, w) for (t, b), (_, l2, w) in zip(subst, atoms.values()) if l2.get_id() == ln.get_id()]
            want = [w for b, w in mine if z3.is_true(mdl.eval(b, model_completion=True))]
            text = "".join(want)
            if any((w in text) != (w in want) for b, w in mine):
                realisable = False
            vals.append((ln, text))
            block += [b if not z3.is_true(mdl.eval(b, model_completion=True)) else z3.Not(b) for b, w in mine]
        if realisable:
            s3 = z3.Solver()
            s3.set("timeout", timeout_ms)
            s3.add(*formulas)
            s3.add(*[ln == z3.StringVal(v) for ln, v in vals])
            if s3.check() == z3.sat:
                return z3.sat, s3
        s2.add(z3.Or(*block) if block else False)
    return z3.unknown, None


def run(K=2, timeout_ms=15000):
    from common import replay_batch
    prog = Program(layout_mod.extract_ast())
    res = []

    def solve(ty, name, m, formula, inst, extra):
        s = z3.Solver()
        s.set("timeout", timeout_ms)
        s.add(*m.constraints)
        s.add(B(formula))
        t0 = time.time()
        r = s.check()
        rec = {"type": ty, "query": name, "verdict": str(r), "time_s": round(time.time() - t0, 2), "K": K}
        if r == z3.unknown and extra.get("lines"):
            # the string solver gave up. The only operations on the lines of field 72 are contains(<literal>): replace every
            # such atom by a free Boolean (an over-approximation, so unsat carries over), and realise a Boolean model by
            # concatenating the code words it wants present (checked; a pattern that cannot be realised is blocked)
            r, s = contains_abstraction(list(m.constraints) + [B(formula)], extra["lines"], timeout_ms)
            rec["time_s"] = round(time.time() - t0, 2)
            rec["verdict"] = str(r)
            rec["via"] = "contains-abstraction"
        if r == z3.sat:
            model = s.model()
            if extra.get("level") in ("message", "plugin"):
                _, js = structsym.to_json(prog, model, inst.fields["fields"])
                uhv = inst.fields["user_header"]
                ujs = None
                if z3.is_true(model.eval(B(uhv.present), model_completion=True)):
                    ujs = {}
                    for key, fld in (("message_user_reference", "message_user_reference"), ("validation_flag", "validation_flag")):
                        o = uhv.val.fields[fld]
                        if z3.is_true(model.eval(B(o.present), model_completion=True)):
                            for g, c in alt_of(o.val):
                                if z3.is_true(model.eval(B(g), model_completion=True)):
                                    ujs[key] = c
                rec["witness"] = {"type": ty, "json": js, "user_header": ujs, "why": "source-level counterexample (message-level predicate / plugin chain)"}
                out = replay_batch([{"op": "classify_message_json", "type": ty, "json": js, "user_header": ujs}], "dev")[0]
                rec["real"] = out
                want = {k: z3.is_true(model.eval(B(v), model_completion=True)) for k, v in extra["expected"].items()}
                if out.get("ok"):
                    diff = {k: (out.get(k), want[k]) for k in want if out.get(k) != want[k]}
                    if diff or extra.get("level") == "plugin":
                        rec["witness"]["why"] = "real message-level classification %s vs expected %s" % ({k: out.get(k) for k in ("reject", "return", "cover", "stp")}, want)
                    else:
                        rec["verdict"] = "sat-not-reproduced"
                else:
                    rec["verdict"] = "sat-not-replayable"
                    rec["detail"] = str(out)[:300]
                res.append(rec)
                return
            _, js = structsym.to_json(prog, model, inst)
            rec["witness"] = {"type": ty, "json": js}
            out = replay_batch([{"op": "classify_json", "type": ty, "json": js}], "dev")[0]
            rec["real"] = out
            want = {k: z3.is_true(model.eval(B(v), model_completion=True)) for k, v in extra["expected"].items()}
            if out.get("ok"):
                diff = {k: (out.get(k), want[k]) for k in want if out.get(k) != want[k]}
                if diff:
                    rec["witness"]["why"] = "real classification differs from the code words present: %s (real, expected)" % diff
                else:
                    rec["verdict"] = "sat-not-reproduced"
            else:
                rec["verdict"] = "sat-not-replayable"
                rec["detail"] = str(out)[:300]
        res.append(rec)

    for ty in ("MT103", "MT202", "MT205"):
        m = StructMachine(prog, K=K)
        inst = m.make(ty, ty)
        I = Inst(inst)
        rej_ref = ref_words(I, ty, REJECT_WORDS)
        ret_ref = ref_words(I, ty, RETURN_WORDS)
        got = {}
        for meth in ("has_reject_codes", "has_return_codes", "is_cover_message", "is_stp_compliant"):
            fn = prog.method(ty, meth)
            if fn is None:
                continue
            try:
                v, _ = m.call_fn(fn[0], [inst], True, self_ty=ty)
                got[meth] = m.as_bool(v)
            except Unsupported as e:
                res.append({"type": ty, "query": meth, "verdict": "not-encoded", "detail": str(e)})
        exp = {"reject": rej_ref, "return": ret_ref}
        if "has_reject_codes" in got:
            solve(ty, "body:reject-iff-reject-code-word", m, got["has_reject_codes"] != B(rej_ref), inst, {"expected": exp, "lines": line_terms(I, ty)})
        if "has_return_codes" in got:
            solve(ty, "body:return-iff-return-code-word", m, got["has_return_codes"] != B(ret_ref), inst, {"expected": exp, "lines": line_terms(I, ty)})
        if ty == "MT202" and "is_cover_message" in got:
            sb = I.f("sequence_b")
            cov = And(sb.present(), Or(sb.some().f("ordering_customer").present(), sb.some().f("beneficiary_customer").present()))
            solve(ty, "body:cover-iff-sequence-B-customer-fields", m, got["is_cover_message"] != B(cov), inst, {"expected": {"cover": cov}, "lines": line_terms(I, ty)})
        if ty == "MT205" and "is_cover_message" in got:
            cov = ref_words(I, ty, COVER_WORDS_205)
            solve(ty, "body:cover-iff-cover-code-word", m, got["is_cover_message"] != B(cov), inst, {"expected": {"cover": cov}, "lines": line_terms(I, ty)})
    # ---- SwiftMessage-level predicates and the plugin's method chain --------------------------------
    def ci_contains(sz, word, L):
        """sz contains `word` ignoring ASCII case (sz: printable ASCII of length <= L)"""
        conds = []
        for i in range(L - len(word) + 1):
            cs = []
            for k, ch in enumerate(word):
                code = z3.StrToCode(z3.SubString(sz, i + k, 1))
                cs.append(z3.Or(code == ord(ch), code == ord(ch.lower())))
            conds.append(z3.And(*cs))
        return z3.Or(*conds)

    def find_method_assignments(v, acc):
        if isinstance(v, dict):
            if v.get("k") == "assign" and v["left"].get("k") == "path" and v["left"]["path"] == "method":
                acc.append(v["right"])
            for x in v.values():
                find_method_assignments(x, acc)
        elif isinstance(v, list):
            for x in v:
                find_method_assignments(x, acc)
    plugin_file = [f for f in prog.ast if f.endswith("plugin/parse.rs")]
    assigns = []
    if plugin_file:
        find_method_assignments(prog.ast[plugin_file[0]], assigns)

    def mentions(v, name):
        if isinstance(v, dict):
            if v.get("k") == "path" and v.get("path") == name:
                return True
            return any(mentions(x, name) for x in v.values())
        if isinstance(v, list):
            return any(mentions(x, name) for x in v)
        return False

    for ty in layout_mod.message_types(prog):
        m = StructMachine(prog, K=K)
        body = m.make(ty, ty)
        # block 3: 108 (MUR) and 119 (validation flag) range over finite candidate sets (present/absent, exact,
        # lower/mixed case, embedded, look-alikes); the other tags are absent
        MUR = ["REJT", "RETN", "rejt", "Retn", "xxREJTyy", "abretncd", "REJ", "RET", "REJT RETN", "MUR123", ""]
        FLAGS = ["REJT", "RETN", "COV", "STP", "REMIT", "rejt", "XXX"]

        def choice(name, cands):
            sel = z3.Int(m.fresh_name(name))
            m.constraints += [sel >= 0, sel < len(cands)]
            m.leaves.append((name, "variant:" + ",".join(cands), sel))
            return mk_alt([(sel == k, c) for k, c in enumerate(cands)]), sel
        mur_v, mur_sel = choice("user_header.message_user_reference", MUR)
        flag_v, flag_sel = choice("user_header.validation_flag", FLAGS)
        p_uh, p_mur, p_flag = z3.Bool("user_header?"), z3.Bool("mur?"), z3.Bool("flag?")
        sd = prog.structs["UserHeader"]
        uh_fields = {f["name"]: Opt(False, None) for f in sd["fields"]}
        uh_fields["message_user_reference"] = Opt(p_mur, mur_v)
        uh_fields["validation_flag"] = Opt(p_flag, flag_v)
        uh = Opt(p_uh, StructV("UserHeader", uh_fields))
        msg = StructV("SwiftMessage", {"basic_header": Opaque("BasicHeader"), "application_header": Opaque("ApplicationHeader"),
                                       "user_header": uh, "trailer": Opt(False, None), "message_type": ty[2:], "fields": body})
        I = Inst(body)
        mur_has = lambda w: And(p_uh, p_mur, Or(*[mur_sel == k for k, c in enumerate(MUR) if w in c.upper()]))
        flag_is = lambda w: And(p_uh, p_flag, Or(*[flag_sel == k for k, c in enumerate(FLAGS) if c == w]))
        special = ty in F72
        rej_ref = Or(mur_has("REJT"), ref_words(I, ty, REJECT_WORDS) if special else False)
        ret_ref = Or(mur_has("RETN"), ref_words(I, ty, RETURN_WORDS) if special else False)
        got = {}
        try:
            for meth in ("has_reject_codes", "has_return_codes", "is_cover_message", "is_stp_message"):
                fn = prog.method("SwiftMessage", meth)
                v, _ = m.call_fn(fn[0], [msg], True, self_ty="SwiftMessage")
                got[meth] = m.as_bool(v)
        except Unsupported as e:
            res.append({"type": ty, "query": "message-level predicates", "verdict": "not-encoded", "detail": str(e)})
            continue
        inst_for_replay = body
        exp = {"reject": rej_ref, "return": ret_ref}
        solve(ty, "message:reject-iff-code-word-in-72-or-MUR", m, got["has_reject_codes"] != B(rej_ref), msg, {"expected": exp, "level": "message", "lines": line_terms(I, ty) if special else []})
        solve(ty, "message:return-iff-code-word-in-72-or-MUR", m, got["has_return_codes"] != B(ret_ref), msg, {"expected": exp, "level": "message", "lines": line_terms(I, ty) if special else []})
        # the plugin's method selection
        var = "mt%s_message" % ty[2:]
        mine = [a for a in assigns if mentions(a, var)]
        if special and not mine:
            res.append({"type": ty, "query": "plugin:method", "verdict": "not-encoded", "detail": "no `method = ...` selection found for %s" % var})
            continue
        for a in mine:
            fr = Frame()
            fr.vars[var] = msg
            try:
                mv = m.eval(a, fr, True)
            except Unsupported as e:
                res.append({"type": ty, "query": "plugin:method", "verdict": "not-encoded", "detail": str(e)})
                continue
            alts = alt_of(mv)
            if not all(isinstance(v, str) for _, v in alts):
                res.append({"type": ty, "query": "plugin:method", "verdict": "not-encoded", "detail": "method is not a string choice"})
                continue
            is_m = lambda name: Or(*[g for g, v in alts if v == name])
            if ty == "MT103":
                r_rej, r_ret = rej_ref, ret_ref
                r_third, third = got["is_stp_message"], "stp"
            else:
                r_rej, r_ret = Or(rej_ref, flag_is("REJT")), Or(ret_ref, flag_is("RETN"))
                r_third, third = Or(got["is_cover_message"], flag_is("COV")), "cover"
            want = {"reject": r_rej, "return": And(Not(r_rej), r_ret), third: And(Not(r_rej), Not(r_ret), r_third),
                    "normal": And(Not(r_rej), Not(r_ret), Not(r_third))}
            bad = Or(*[is_m(k) != B(v) for k, v in want.items()])
            solve(ty, "plugin:method-is-the-one-the-classifications-imply", m, bad, msg, {"expected": {}, "level": "plugin", "lines": line_terms(I, ty) if special else []})
    # every other assignment to `method` must be the constant "normal"
    others = [a for a in assigns if not any(mentions(a, "mt%s_message" % t[2:]) for t in F72)]
    badconst = []
    for a in others:
        ok = a.get("k") == "mcall" and a.get("method") == "to_string" and a["recv"].get("k") == "lit" and a["recv"]["lit"].get("v") == "normal"
        if not ok:
            badconst.append(str(a)[:120])
    res.append({"type": "*", "query": "plugin:other-types-report-normal (%d assignments)" % len(others), "verdict": "unsat" if not badconst else "sat",
                "time_s": 0.0, "witness": {"why": "method assignment that is not the constant \"normal\": %s" % badconst} if badconst else None})
    return res


if __name__ == "__main__":
    for r in run():
        print("%-6s %-50s %-18s %5.2fs %s" % (r["type"], r["query"], r["verdict"], r.get("time_s", 0), json.dumps(r.get("witness", r.get("detail", "")))[:400]))
