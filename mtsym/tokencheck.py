"""C16: parser::generated::parse_block4_fields (the public tag -> values map), executed from source on structured block-4 texts.

The text is given as pieces: the field markers (":20:", "\\r\\n:79:" ...) literal, the field contents symbolic pieces of fixed
length over the x character set without ':' and line breaks (so '-', ',', '/', blanks inside the text occur), the first and last
character of each content not a blank (surrounding white space is documented as removed). Every occurrence must appear exactly once under its (normalised) tag, with exactly its content, and
the position stamps must increase strictly in input order.
"""
import json
import os
import sys
import time

HERE = os.path.dirname(os.path.abspath(__file__))
sys.path.insert(0, HERE)
sys.path.insert(0, os.path.join(os.path.dirname(HERE), "lib"))

import z3  # noqa
import layout as layout_mod  # noqa
from structsym import *  # noqa
import structsym  # noqa
from hdrcheck import PieceStr, SymChar  # noqa
from blockcheck import BlockMachine, IterV, sym  # noqa

XT = frozenset("abcdefghijklmnopqrstuvwxyzABCDEFGHIJKLMNOPQRSTUVWXYZ0123456789/-?().,'+ ")
XT_NB = frozenset(XT - {" "})


class MapV:
    """HashMap with concrete keys (insertion-ordered python dict of interpreter values)"""
    __slots__ = ("d",)

    def __init__(self, d=None):
        self.d = dict(d or {})


class TokMachine2(BlockMachine):
    def ev_call(self, e, fr, guard):
        f = e["func"]
        if f["k"] == "path" and f["path"] in ("HashMap::with_capacity", "HashMap::new", "std::collections::HashMap::new"):
            for a in e["args"]:
                self.eval(a, fr, guard)
            return MapV()
        if f["k"] == "path" and f["path"] in ("Cow::Borrowed", "Cow::Owned", "std::borrow::Cow::Borrowed", "std::borrow::Cow::Owned"):
            return self.eval(e["args"][0], fr, guard)
        return super().ev_call(e, fr, guard)

    def ev_mcall(self, e, fr, guard):
        # map.entry(key).or_default().push(value)
        if e["method"] == "push" and e["recv"].get("k") == "mcall" and e["recv"]["method"] in ("or_default", "or_insert_with", "or_insert") \
                and e["recv"]["recv"].get("k") == "mcall" and e["recv"]["recv"]["method"] == "entry":
            target = e["recv"]["recv"]["recv"]
            mp = self.eval(target, fr, guard)
            key = self.eval(e["recv"]["recv"]["args"][0], fr, guard)
            val = self.eval(e["args"][0], fr, guard)
            if not isinstance(mp, MapV) or not isinstance(key, str):
                raise Unsupported("map entry with a computed key")
            if is_sym(self.live(fr, guard)):
                raise Unsupported("map insertion on a symbolic path")
            d = dict(mp.d)
            d[key] = VecV(d.get(key, VecV(())).items + ((True, val),))
            self.assign(target, MapV(d), fr, guard)
            return UNIT
        return super().ev_mcall(e, fr, guard)

    def builtin_method(self, recv, meth, args, e, fr, guard):
        if isinstance(recv, PieceStr):
            if meth == "matches":
                return Opaque("matches")
            if meth == "chars":
                return IterV([recv.sym_char(i) for i in range(recv.total())])
            if meth in ("trim", "trim_start", "trim_end"):
                tot = recv.total()
                a, b = 0, tot
                while meth != "trim_end" and a < b and recv.at(a)[0] is not None and recv.at(a)[0].isspace():
                    a += 1
                while meth != "trim_start" and b > a and recv.at(b - 1)[0] is not None and recv.at(b - 1)[0].isspace():
                    b -= 1
                if a == b or not ((meth != "trim_end" and recv.may_be_space(a)) or (meth != "trim_start" and recv.may_be_space(b - 1))):
                    return recv.slice(a, b)
        if isinstance(recv, Opaque) and recv.what == "matches" and meth in ("count",):
            return Opaque("count")
        if isinstance(recv, Opaque) and recv.what == "count" and meth == "max":
            return 10
        if isinstance(recv, IterV) and meth == "nth" and isinstance(args[0], int):
            k = recv.cur + args[0]
            return Opt(True, recv.items[k]) if k < len(recv.items) else Opt(False, None)
        if isinstance(recv, str):
            if meth in ("into_owned", "to_string", "to_owned", "as_str", "clone", "as_ref"):
                return recv
            if meth == "contains" and args and isinstance(args[0], str):
                return args[0] in recv
            if meth == "find" and args and isinstance(args[0], Closure):
                for i, ch in enumerate(recv):
                    r = self.call_closure(args[0], [ch], fr, guard)
                    if not isinstance(r, bool):
                        r = self.as_bool(r)
                    if is_sym(r):
                        raise Unsupported("character predicate on a concrete string did not evaluate")
                    if r:
                        return Opt(True, i)
                return Opt(False, None)
            if meth == "chars":
                return IterV(list(recv))
            if meth in ("is_ascii_digit", "is_ascii_uppercase", "is_ascii_alphabetic", "is_ascii_alphanumeric", "is_ascii_lowercase") and len(recv) == 1:
                c = recv
                return {"is_ascii_digit": c.isdigit() and c.isascii(), "is_ascii_uppercase": c.isascii() and c.isupper(),
                        "is_ascii_lowercase": c.isascii() and c.islower(), "is_ascii_alphabetic": c.isascii() and c.isalpha(),
                        "is_ascii_alphanumeric": c.isascii() and c.isalnum()}[meth]
        if isinstance(recv, IterV) and meth in ("all", "any") and args and isinstance(args[0], Closure) and all(isinstance(x, str) for x in recv.items[recv.cur:]):
            rs = [self.as_bool(self.call_closure(args[0], [x], fr, guard)) for x in recv.items[recv.cur:]]
            return all(rs) if meth == "all" else any(rs)
        return super().builtin_method(recv, meth, args, e, fr, guard)

    def ev_index(self, e, fr, guard):
        base = self.eval(e["base"], fr, guard)
        if isinstance(base, PieceStr):
            r = super().ev_index(e, fr, guard)
            if isinstance(r, PieceStr) and all(isinstance(p, str) for p, _, _ in r.pieces):
                return "".join(p for p, _, _ in r.pieces)
            return r
        return super().ev_index(e, fr, guard)


def templates(m):
    """(name, pieces, expected [(normalised tag, content pieces)])"""
    out = []

    def content(name, n):
        # first and last character not blank (surrounding white space is documented as removed)
        return [sym(m, name + "a", 1, XT_NB), sym(m, name + "m", n - 2, XT), sym(m, name + "b", 1, XT_NB)]

    XT_END = frozenset(XT_NB - {"-"})

    def mk(name, fields, lead="", sep="\r\n", tail="", last_literal=None):
        P, exp = [], []
        if lead:
            P.append((lead, len(lead)))
        for k, (tag, norm, n) in enumerate(fields):
            mark = (sep if k else "") + ":" + tag + ":"
            P.append((mark, len(mark)))
            nm = "%s_f%d" % (name, k)
            if k == len(fields) - 1 and last_literal:
                # the last character of the whole text is a hyphen (literal, preceded by a non-blank) ...
                c = [sym(m, nm + "a", 1, XT_NB), sym(m, nm + "m", n - 3, XT), sym(m, nm + "p", 1, XT_NB), (last_literal, 1, None)]
            elif k == len(fields) - 1:
                # ... or anything but a hyphen or a blank
                c = [sym(m, nm + "a", 1, XT_NB), sym(m, nm + "m", n - 2, XT), sym(m, nm + "e", 1, XT_END)]
            else:
                c = content(nm, n)
            P += c
            exp.append((norm, c))
        if tail:
            P.append((tail, len(tail)))
        out.append((name, P, exp))
    mk("basic", [("20", "20", 6), ("23B", "23B", 4), ("32A", "32A", 9), ("79", "79", 8)])
    mk("repeat", [("20", "20", 5), ("72", "72", 7), ("21", "21", 4), ("72", "72", 6), ("72", "72", 3)])
    mk("options", [("20", "20", 5), ("50K", "50K", 6), ("70", "70", 5), ("86", "86", 4)], lead="\r\n", sep="\n", tail="\r\n")
    mk("hyphenend", [("20", "20", 5), ("79", "79", 7)], last_literal="-")
    mk("hyphenend2", [("20", "20", 5), ("72", "72", 6)], tail="\r\n", last_literal="-")
    return out


def run(timeout_ms=60000):
    from common import replay_batch
    prog = Program(layout_mod.extract_ast())
    fn = prog.free.get("parse_block4_fields")
    if fn is None:
        return [{"type": "parse_block4_fields", "query": "parse_block4_fields", "verdict": "not-encoded", "detail": "function not found"}]
    res = []
    m0 = TokMachine2(prog)
    for name, pieces, exp in templates(m0):
        m = TokMachine2(prog)
        m.unroll = 16
        m.constraints = list(m0.constraints)
        text = PieceStr(pieces)
        rec = {"type": "parse_block4_fields", "template": name,
               "query": "parse_block4_fields(block 4 text '%s'): every field once under its tag with its content, stamps increasing" % name}
        t0 = time.time()
        try:
            r, _ = StructMachine.call_fn(m, fn[0], [text], True)
            if not isinstance(r, Res) or not isinstance(r.val, MapV):
                raise Unsupported("result is not Result<HashMap>: %r" % (r,))
            bad = [Not(r.ok)]
            hang = [g for g, line in m.unwind_obl if not is_sym(g) and g]
            if hang:
                bad.append(True)
            got = r.val.d
            want = {}
            for norm, c in exp:
                want.setdefault(norm, []).append(c)
            if set(got) != set(want):
                bad.append(True)
                rec["shape"] = "tags %s instead of %s" % (sorted(got), sorted(want))
            else:
                stamps = []
                order = {}
                for norm, c in exp:
                    k = order.get(norm, 0)
                    order[norm] = k + 1
                    items = got[norm].items
                    if len(items) != len(want[norm]):
                        bad.append(True)
                        rec["shape"] = "tag %s has %d values instead of %d" % (norm, len(items), len(want[norm]))
                        break
                    g, v = items[k]
                    if not isinstance(v, TupleV):
                        raise Unsupported("map value is not a (String, usize) pair")
                    bad.append(to_strz(v.elems[0]) != PieceStr(c).s)
                    stamps.append(v.elems[1])
                for a, b in zip(stamps, stamps[1:]):
                    bad.append(Not(a < b) if (is_sym(a) or is_sym(b)) else (not a < b))
            formula = Or(*bad)
        except Unsupported as e:
            rec.update({"verdict": "not-encoded", "detail": str(e)[:300], "time_s": 0})
            res.append(rec)
            continue
        s = z3.Solver()
        s.set("timeout", timeout_ms)
        s.add(*m.constraints)
        if s.check() != z3.sat:
            rec.update({"verdict": "error", "detail": "vacuous: the constraints on the symbolic text are not satisfiable", "time_s": 0})
            res.append(rec)
            continue
        s.add(B(formula))
        rr = s.check()
        rec.update({"verdict": str(rr), "time_s": round(time.time() - t0, 2)})
        if rr == z3.sat:
            mdl = s.model()
            t = structsym._zstr(mdl.eval(text.s, model_completion=True))
            wanted = [(norm, structsym._zstr(mdl.eval(PieceStr(c).s, model_completion=True))) for norm, c in exp]
            real = replay_batch([{"op": "block4_fields", "text": t}], "dev", timeout=20)[0]
            rec["witness"] = {"text": t, "expected": wanted, "real": real}
            if real.get("outcome") == "hang" or real.get("panic"):
                rec["witness"]["why"] = "parse_block4_fields(%r) %s" % (t, "does not return" if real.get("outcome") == "hang" else "panics: %s" % real.get("panic"))
            elif real.get("ok"):
                flat = sorted(((pos, tag, val) for tag, vs in real["fields"].items() for val, pos in vs))
                got_seq = [(tag, val) for pos, tag, val in flat]
                stamps_ok = len(set(p for p, _, _ in flat)) == len(flat)
                if got_seq != wanted or not stamps_ok:
                    rec["witness"]["why"] = "parse_block4_fields(%r) gives %s (in stamp order), the text holds %s" % (t, got_seq, wanted)
                else:
                    rec["verdict"] = "sat-not-reproduced"
            else:
                rec["witness"]["why"] = "parse_block4_fields(%r) fails: %s" % (t, str(real)[:200])
        res.append(rec)
    return res


if __name__ == "__main__":
    for r in run():
        print("%-10s %-18s %5.2fs %s %s" % (r.get("template"), r["verdict"], r.get("time_s", 0), r["query"][:60],
                                            json.dumps((r.get("witness") or {}).get("why") or r.get("detail") or r.get("shape") or "")[:400]))
