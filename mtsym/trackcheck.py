"""C16: FieldConsumptionTracker (mark_consumed / get_next_available), executed from source.

One tag with three occurrences at strictly increasing symbolic positions. The tracker state is the one reached from new() by
marking an ARBITRARY subset of the occurrences (one symbolic Boolean per occurrence: consumption out of input order — a later
occurrence taken before an earlier one, as a lookup with an option constraint does — is included). get_next_available must then
return exactly the first occurrence that was not marked, with its value and position, or None when all are marked; occurrences of
another tag are unaffected. The HashMap is a map with concrete keys and symbolic presence, a HashSet<usize> a guarded list of
integer terms, `entry` / `get_mut` give write-through references.
"""
import json
import os
import sys
import time

HERE = os.path.dirname(os.path.abspath(__file__))
sys.path.insert(0, HERE)
sys.path.insert(0, os.path.join(os.path.dirname(HERE), "lib"))

import z3  # noqa
import layout as layout_mod  # noqa
from structsym import *  # noqa
import structsym  # noqa
import interp  # noqa


class MapS:
    """HashMap with concrete keys: key -> (presence guard, value)"""
    __slots__ = ("d",)

    def __init__(self, d=None):
        self.d = dict(d or {})


class EntryV:
    __slots__ = ("target", "map", "key")

    def __init__(self, target, mp, key):
        self.target, self.map, self.key = target, mp, key


class RefV:
    """&mut to the value stored under `key` of the map that `target` (an expression of the frame) denotes"""
    __slots__ = ("target", "key", "val")

    def __init__(self, target, key, val):
        self.target, self.key, self.val = target, key, val


class IntSet:
    """HashSet<usize>: guarded insertions of integer terms"""
    __slots__ = ("items",)

    def __init__(self, items=()):
        self.items = tuple(items)


_prev_merge = interp.merge


def _merge_track(c, a, b):
    if isinstance(a, MapS) and isinstance(b, MapS):
        out = {}
        for k in list(a.d) + [k for k in b.d if k not in a.d]:
            pa, va = a.d.get(k, (False, None))
            pb, vb = b.d.get(k, (False, None))
            v = va if vb is None else vb if va is None else (va if va is vb else interp.merge(c, va, vb))
            out[k] = (If(c, pa, pb) if pa is not pb else pa, v)
        return MapS(out)
    if isinstance(a, IntSet) and isinstance(b, IntSet):
        k = 0
        while k < len(a.items) and k < len(b.items) and a.items[k] is b.items[k]:
            k += 1
        return IntSet(a.items[:k] + tuple((And(c, g), v) for g, v in a.items[k:]) + tuple((And(Not(c), g), v) for g, v in b.items[k:]))
    return _prev_merge(c, a, b)


interp.merge = _merge_track
structsym.merge = _merge_track


class TrackMachine(StructMachine):
    def ev_call(self, e, fr, guard):
        f = e["func"]
        if f["k"] == "path" and f["path"].split("::")[-2:] in (["HashMap", "new"], ["HashMap", "with_capacity"]):
            return MapS()
        if f["k"] == "path" and f["path"].split("::")[-2:] == ["HashSet", "new"]:
            return IntSet()
        return super().ev_call(e, fr, guard)

    def ev_unary(self, e, fr, guard):
        v = self.eval(e["expr"], fr, guard)
        if e["op"] == "*" and isinstance(v, RefV):
            return v.val
        if e["op"] in ("*", "&") and not isinstance(v, RefV):
            return v
        return super().ev_unary(e, fr, guard)

    def write_through(self, ref, val, fr, guard):
        mp = self.eval(ref.target, fr, guard)
        if not isinstance(mp, MapS):
            raise Unsupported("reference into something that is not a map")
        d = dict(mp.d)
        p, _ = d.get(ref.key, (False, None))
        d[ref.key] = (p, val)
        self.assign(ref.target, MapS(d), fr, guard)

    def assign(self, target, val, fr, guard):
        if target["k"] == "unary" and target.get("op") == "*" and target["expr"]["k"] == "path":
            cur = fr.vars.get(target["expr"]["path"])
            if isinstance(cur, RefV):
                live = self.live(fr, guard)
                new = val if (not is_sym(live) and live) else interp.merge(live, val, cur.val)
                self.write_through(cur, new, fr, guard)
                fr.vars[target["expr"]["path"]] = RefV(cur.target, cur.key, new)
                return
        return super().assign(target, val, fr, guard)

    def match_pat(self, pat, val, fr):
        if isinstance(val, EntryV) and pat["k"] == "ptuplestruct":
            name = pat["path"].split("::")[-1]
            p, v = val.map.d.get(val.key, (False, None))
            if name == "Occupied":
                c, b = self.match_pat(pat["elems"][0], RefV(val.target, val.key, v), fr)
                return And(p, c), b
            if name == "Vacant":
                c, b = self.match_pat(pat["elems"][0], val, fr)
                return And(Not(p), c), b
        return super().match_pat(pat, val, fr)

    def ev_mcall(self, e, fr, guard):
        # e.get_mut().insert(x) on an occupied entry: write through
        if e["recv"].get("k") == "mcall" and e["recv"]["method"] in ("get_mut", "get", "into_mut") and not e["recv"]["args"]:
            base = self.eval(e["recv"]["recv"], fr, guard)
            if isinstance(base, RefV):
                args = [self.eval(a, fr, guard) for a in e["args"]]
                if isinstance(base.val, IntSet) and e["method"] == "insert":
                    live = self.live(fr, guard)
                    self.write_through(base, IntSet(base.val.items + ((live, args[0]),)), fr, guard)
                    return True
                raise Unsupported("method .%s through an entry reference" % e["method"])
        return super().ev_mcall(e, fr, guard)

    def builtin_method(self, recv, meth, args, e, fr, guard):
        if isinstance(recv, MapS):
            key = args[0] if args else None
            if meth in ("get", "get_mut", "contains_key", "entry", "insert", "remove") and not isinstance(key, str):
                raise Unsupported("map access with a computed key")
            if meth == "entry":
                return EntryV(e["recv"], recv, key)
            if meth == "get":
                p, v = recv.d.get(key, (False, None))
                return Opt(p, v)
            if meth == "get_mut":
                p, v = recv.d.get(key, (False, None))
                return Opt(p, RefV(e["recv"], key, v) if v is not None else None)
            if meth == "contains_key":
                return recv.d.get(key, (False, None))[0]
            if meth == "insert":
                live = self.live(fr, guard)
                d = dict(recv.d)
                p, v = d.get(key, (False, None))
                d[key] = (Or(p, live), args[1] if v is None or (not is_sym(live) and live) else interp.merge(live, args[1], v))
                self.assign(e["recv"], MapS(d), fr, guard)
                return Opt(p, v)
        if isinstance(recv, EntryV) and meth == "insert":
            live = self.live(fr, guard)
            mp = self.eval(recv.target, fr, guard)
            d = dict(mp.d)
            p, v = d.get(recv.key, (False, None))
            d[recv.key] = (Or(p, live), args[0] if v is None or (not is_sym(live) and live) else interp.merge(live, args[0], v))
            self.assign(recv.target, MapS(d), fr, guard)
            return UNIT
        if isinstance(recv, IntSet):
            if meth == "contains":
                x = args[0].val if isinstance(args[0], RefV) else args[0]
                return Or(*[And(g, v == x) for g, v in recv.items])
            if meth == "insert":
                had = Or(*[And(g, v == args[0]) for g, v in recv.items])
                self.assign(e["recv"], IntSet(recv.items + ((self.live(fr, guard), args[0]),)), fr, guard)
                return Not(had)
            if meth == "is_empty":
                return Not(Or(*[g for g, _ in recv.items]))
        if isinstance(recv, Opt):
            if meth == "is_none_or" and isinstance(args[0], Closure):
                if recv.val is None:
                    return Not(recv.present)
                return Or(Not(recv.present), self.as_bool(self.call_closure(args[0], [recv.val], fr, And(guard, recv.present))))
        if isinstance(recv, VecV) and meth == "find" and args and isinstance(args[0], Closure):
            found, val = False, None
            for g, v in recv.items:
                hit = And(g, Not(found), self.as_bool(self.call_closure(args[0], [v], fr, And(guard, g))))
                val = v if val is None else interp.merge(hit, v, val)
                found = Or(found, hit)
            return Opt(found, val)
        if (is_sym(recv) or isinstance(recv, int)) and not isinstance(recv, bool) and meth in ("max", "min") and len(args) == 1:
            a = args[0].val if isinstance(args[0], RefV) else args[0]
            return If(recv >= a, recv, a) if meth == "max" else If(recv <= a, recv, a)
        if isinstance(recv, RefV):
            return self.builtin_method(recv.val, meth, args, e, fr, guard)
        return super().builtin_method(recv, meth, args, e, fr, guard)

    def binop(self, e, op, a, b, fr, guard):
        a = a.val if isinstance(a, RefV) else a
        b = b.val if isinstance(b, RefV) else b
        return super().binop(e, op, a, b, fr, guard)


def run(K=3, timeout_ms=60000):
    from common import replay_batch
    prog = Program(layout_mod.extract_ast())
    res = []
    name = "tracker state = any subset of %d occurrences marked: get_next_available returns the first unmarked one (value and position)" % K
    rec = {"type": "FieldConsumptionTracker", "query": name}
    t0 = time.time()
    try:
        m = TrackMachine(prog, K=K)
        new = prog.method("FieldConsumptionTracker", "new")
        mark = prog.method("FieldConsumptionTracker", "mark_consumed")
        nxt = prog.method("FieldConsumptionTracker", "get_next_available")
        if not (new and mark and nxt):
            raise Unsupported("FieldConsumptionTracker::{new,mark_consumed,get_next_available} not found")
        pos = [z3.Int("pos%d" % k) for k in range(K)]
        marked = [z3.Bool("marked%d" % k) for k in range(K)]
        m.constraints += [pos[0] >= 0] + [pos[k] < pos[k + 1] for k in range(K - 1)] + [pos[-1] < 100]
        tracker, _ = m.call_fn(new[0], [], True, self_ty="FieldConsumptionTracker")
        fr = Frame()
        fr.vars["t"] = tracker
        # marks in input order, each under its own symbolic decision; another tag is marked as well (must not interfere)
        call = lambda k: {"k": "mcall", "recv": {"k": "path", "path": "t"}, "method": "mark_consumed",
                          "args": [{"k": "lit", "lit": {"k": "str", "v": "20"}}, {"k": "path", "path": "p%d" % k}], "turbofish": None, "line": 0}
        for k in range(K):
            fr.vars["p%d" % k] = pos[k]
        other = {"k": "mcall", "recv": {"k": "path", "path": "t"}, "method": "mark_consumed",
                 "args": [{"k": "lit", "lit": {"k": "str", "v": "21"}}, {"k": "path", "path": "p0"}], "turbofish": None, "line": 0}
        m.eval(other, fr, True)
        order = list(range(K))[::-1]          # a later occurrence first
        for k in order:
            m.branch(marked[k], fr, True, lambda f, g, k=k: m.eval(call(k), f, g), lambda f, g: UNIT)
        values = VecV(tuple((True, TupleV((StrZ(z3.StringVal("V%d" % k)), pos[k]))) for k in range(K)), dense=True)
        got, _ = m.call_fn(nxt[0], [fr.vars["t"], "20", values], True, self_ty="FieldConsumptionTracker")
        if not isinstance(got, Opt):
            raise Unsupported("get_next_available did not return an Option")
        want_some = Or(*[Not(mk) for mk in marked])
        bad = [B(got.present) != B(want_some)]
        if got.val is not None:
            if not isinstance(got.val, TupleV):
                raise Unsupported("get_next_available value is not a pair")
            gv, gp = got.val.elems
            for k in range(K):
                first = And(Not(marked[k]), *[marked[j] for j in range(k)])
                bad.append(And(first, Or(gp != pos[k], to_strz(gv) != z3.StringVal("V%d" % k))))
    except Unsupported as e:
        rec.update({"verdict": "not-encoded", "detail": str(e)[:300], "time_s": 0})
        return [rec]
    s = z3.Solver()
    s.set("timeout", timeout_ms)
    s.add(*m.constraints)
    if s.check() != z3.sat:
        rec.update({"verdict": "error", "detail": "vacuous"})
        return [rec]
    s.add(B(Or(*bad)))
    r = s.check()
    rec.update({"verdict": str(r), "time_s": round(time.time() - t0, 2)})
    if r == z3.sat:
        mdl = s.model()
        ps = [mdl.eval(p, model_completion=True).as_long() for p in pos]
        mk = [z3.is_true(mdl.eval(x, model_completion=True)) for x in marked]
        real = replay_batch([{"op": "tracker", "positions": ps, "marks": [ps[k] for k in order if mk[k]]}], "dev")[0]
        want = next((k for k in range(K) if not mk[k]), None)
        rec["witness"] = {"positions": ps, "marked_in_order": [ps[k] for k in order if mk[k]], "real": real}
        got_real = real.get("next")
        exp = None if want is None else ["V%d" % want, ps[want]]
        if real.get("ok") and got_real != exp:
            rec["witness"]["why"] = "occurrences at %s, marked %s: get_next_available returns %s, the first unmarked occurrence is %s" % (
                ps, rec["witness"]["marked_in_order"], got_real, exp)
        else:
            rec["verdict"] = "sat-not-reproduced"
    return [rec]


if __name__ == "__main__":
    for r in run():
        print(r["verdict"], r.get("time_s"), json.dumps(r.get("witness") or r.get("detail") or "")[:500])
