"""Run the real layout code of every message type on a symbolic token list."""
import glob
import json
import os
import subprocess
import sys
import time

import z3

HERE = os.path.dirname(os.path.abspath(__file__))
sys.path.insert(0, HERE)
sys.path.insert(0, os.path.join(os.path.dirname(HERE), "lib"))
from interp import *  # noqa
import interp

REPO = os.environ.get("VERIF_REPO", "/repo")
SCRATCH = os.environ.get("VERIF_SCRATCH", "/var/tmp/swiftmt-verif")


def extract_ast():
    exe = os.path.join(SCRATCH, "mtsym-target", "release", "mtsym-extract")
    crate = os.path.join(HERE, "extract")
    env = dict(os.environ)
    env["CARGO_NET_OFFLINE"] = "true"
    lock = os.path.join(crate, "Cargo.lock")
    if not os.path.exists(lock):
        import shutil
        shutil.copy(os.path.join(REPO, "Cargo.lock"), lock)
    subprocess.run(["cargo", "build", "--release", "--target-dir", os.path.join(SCRATCH, "mtsym-target")], cwd=crate,
                   env=env, stdout=subprocess.PIPE, stderr=subprocess.STDOUT, check=True)
    files = [os.path.join(REPO, "src/parser/utils.rs"), os.path.join(REPO, "src/parser/field_extractor.rs"),
             os.path.join(REPO, "src/parser/message_parser.rs"), os.path.join(REPO, "src/parser/generated.rs")]
    files += sorted(glob.glob(os.path.join(REPO, "src/messages/*.rs")))
    files += sorted(glob.glob(os.path.join(REPO, "src/fields/*.rs")))
    files += [os.path.join(REPO, "src/errors.rs"), os.path.join(REPO, "src/traits.rs"), os.path.join(REPO, "src/parser/swift_parser.rs"),
              os.path.join(REPO, "src/parsed_message.rs"), os.path.join(REPO, "src/swift_message.rs"),
              os.path.join(REPO, "src/headers/mod.rs")]
    files += sorted(glob.glob(os.path.join(REPO, "src/plugin/*.rs")))
    files += [os.path.join(REPO, "src/parser/sequence_parser.rs")]      # last: its names never shadow the earlier files'
    os.makedirs(os.path.join(SCRATCH, "tmp"), exist_ok=True)
    out = os.path.join(SCRATCH, "tmp", "ast-%d.json" % os.getpid())
    subprocess.run([exe, out] + files, check=True)
    with open(out) as f:
        ast = json.load(f)
    os.unlink(out)
    # keep insertion order = priority order
    return {k: ast[k] for k in files}


def message_types(prog):
    out = []
    for (tr, ty), fns in sorted(prog.trait_impls.items()):
        if tr == "SwiftMessageBody":
            out.append(ty)
    return out


import structsym as _structsym


class TokMachine(_structsym.StructMachine):
    """token machine with the struct machine's wider Rust subset (Vec/Option/closure/string methods)"""

    def __init__(self, prog, N, unroll=None, cap_scale=None):
        _structsym.StructMachine.__init__(self, prog, K=2)
        Machine.__init__(self, prog, N, unroll=unroll, cap_scale=cap_scale)
        self.K = 2
        self.counter = 0
        self.constraints = []
        self.leaves = []
        self.deser_inputs = []
        self.CASE_LEN = 8
        self.bounds_used = set()
        self.type_tags = {}


class Layout:
    """Symbolic run of parse_from_block4 + to_mt_string for one message type."""

    def __init__(self, prog, ty, N, unroll=None, cap_scale=None, tags=None):
        self.prog, self.ty, self.N = prog, ty, N
        self.m = TokMachine(prog, N, unroll=unroll, cap_scale=cap_scale)
        m = self.m
        m.field_tags = tags if tags is not None else field_tags(prog)[0]
        fn = prog.method(ty, "parse_from_block4", prefer_inherent=False)
        if fn is None:
            raise Unsupported("%s has no parse_from_block4" % ty)
        res, _ = m.call_fn(fn[0], [InputV()], True, self_ty=ty)
        if not isinstance(res, Res):
            raise Unsupported("parse_from_block4 of %s did not evaluate to a Result" % ty)
        self.res = res
        self.accepted = B(res.ok)
        ser = prog.method(ty, "to_mt_string", prefer_inherent=False)
        out, _ = m.call_fn(ser[0], [res.val], True, self_ty=ty)
        self.emit = out
        self.fields = []   # (guard, FieldV) in emission order
        items = out.items if isinstance(out, EmitV) else ()
        for g, atom in items:
            if isinstance(atom, FieldEmit):
                self.fields.append((g, atom.fv))
            elif isinstance(atom, str):
                continue
            else:
                raise Unsupported("to_mt_string of %s emits a non-field piece %r" % (ty, atom))
        # all FieldV reachable in the parsed value (for slots that are parsed but never emitted)
        self.slots = []
        self._walk(res.val, True, ty)

    def _walk(self, v, g, path):
        if isinstance(v, FieldV):
            self.slots.append((g, v, path))
        elif isinstance(v, Opt):
            if v.val is not None:
                self._walk(v.val, And(g, v.present), path)
        elif isinstance(v, VecV):
            for k, (gi, x) in enumerate(v.items):
                self._walk(x, And(g, gi), "%s[%d]" % (path, k))
        elif isinstance(v, StructV):
            for k, x in v.fields.items():
                self._walk(x, g, path + "." + k)
        elif isinstance(v, Alt):
            for ga, x in v.alts:
                self._walk(x, And(g, ga), path)
        elif isinstance(v, TupleV):
            for k, x in enumerate(v.elems):
                self._walk(x, g, "%s.%d" % (path, k))


if __name__ == "__main__":
    t0 = time.time()
    prog = Program(extract_ast())
    print("ast+index %.2fs" % (time.time() - t0))
    only = sys.argv[1:]
    for ty in message_types(prog):
        if only and ty not in only:
            continue
        t1 = time.time()
        try:
            L = Layout(prog, ty, N=8)
            print(ty, "ok: emitted fields %d, slots %d, unwind obligations %d, strtab %d, %.2fs" % (
                len(L.fields), len(L.slots), len(L.m.unwind_obl), len(L.m.strtab), time.time() - t1))
        except Unsupported as e:
            print(ty, "UNSUPPORTED:", e)


def field_tags(prog):
    """type -> tag emitted by its to_swift_string (struct types), read from the source: the unique
    string literal / format template in the body that starts with ':NN[X]:'."""
    import re
    tags, bad = {}, {}

    def lits(v, acc):
        if isinstance(v, dict):
            if v.get("k") == "lit" and v["lit"].get("k") == "str":
                acc.append(v["lit"]["v"])
            if v.get("k") == "macro" and v.get("args") is None:
                acc += re.findall(r'"((?:[^"\\]|\\.)*)"', v.get("src", ""))
            for x in v.values():
                lits(x, acc)
        elif isinstance(v, list):
            for x in v:
                lits(x, acc)
    for (tr, ty), fns in prog.trait_impls.items():
        if tr != "SwiftField" or ty in prog.enums:
            continue
        fn = prog.fns.get((ty, "to_swift_string", True))
        acc = []
        lits(fn[0]["body"], acc)
        found = set()
        for s in acc:
            m = re.match(r"^:(\d\d[A-Z]?):", s)
            if m:
                found.add(m.group(1))
        if len(found) == 1:
            tags[ty] = found.pop()
        else:
            bad[ty] = sorted(found)
    return tags, bad
