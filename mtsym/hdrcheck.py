"""C10: block 3 / block 5 — every tag the struct documents and holds is written by Display
(executed from source on a symbolic header instance)."""
import json
import os
import re
import sys
import time

HERE = os.path.dirname(os.path.abspath(__file__))
sys.path.insert(0, HERE)
sys.path.insert(0, os.path.join(os.path.dirname(HERE), "lib"))

import z3  # noqa
import layout as layout_mod  # noqa
from structsym import *  # noqa
import structsym  # noqa


DEFAULT_ALLOWED = frozenset("ABCDEFGHIJKLMNOPQRSTUVWXYZ0123456789/")


class SymChar(StrZ):
    """one symbolic character of a piece (its class is known)"""
    __slots__ = ("allowed",)

    def __init__(self, s, allowed):
        super().__init__(s)
        self.allowed = allowed


class PieceStr(StrZ):
    """A string given as a sequence of pieces of known length: literal text, or a symbolic piece (z3 string term of fixed
    length whose characters come from a known class, by default letters, digits and '/'). Searching for text and slicing at
    constant offsets are decided on the structure whenever the needle contains a character the symbolic pieces cannot hold,
    so that the z3 queries only see SubString at constant offsets."""
    __slots__ = ("pieces",)

    def __init__(self, pieces):
        self.pieces = [(p[0], p[1], (p[2] if len(p) > 2 else (None if isinstance(p[0], str) else DEFAULT_ALLOWED))) for p in pieces if p[1] > 0]
        parts = [z3.StringVal(p) if isinstance(p, str) else p for p, _, _ in self.pieces]
        super().__init__(z3.StringVal("") if not parts else parts[0] if len(parts) == 1 else z3.Concat(*parts))

    def total(self):
        return sum(n for _, n, _ in self.pieces)

    def at(self, i):
        """(python char, None) if position i is literal, else (None, allowed set)"""
        for p, n, al in self.pieces:
            if i < n:
                return (p[i], None) if isinstance(p, str) else (None, al)
            i -= n
        raise IndexError

    def sym_char(self, i):
        for p, n, al in self.pieces:
            if i < n:
                return p[i] if isinstance(p, str) else SymChar(z3.SubString(p, i, 1), al)
            i -= n
        raise IndexError

    def find(self, needle, start=0):
        """first index >= start at which `needle` occurs, or -1. Decided on the structure; raises Unsupported when an
        occurrence would depend on the symbolic characters."""
        tot = self.total()
        for pos in range(start, tot - len(needle) + 1):
            ok, maybe = True, False
            for k, ch in enumerate(needle):
                c, al = self.at(pos + k)
                if c is None:
                    if ch in al:
                        maybe = True
                        continue
                    ok = False
                    break
                if c != ch:
                    ok = False
                    break
            if ok and maybe:
                raise Unsupported("searching for %r would have to look inside a symbolic piece" % needle)
            if ok:
                return pos
        return -1

    def slice(self, a, b):
        out, off = [], 0
        for p, n, al in self.pieces:
            lo, hi = max(a, off), min(b, off + n)
            if lo < hi:
                out.append((p[lo - off:hi - off], hi - lo, None) if isinstance(p, str) else
                           ((p if (lo == off and hi == off + n) else z3.SubString(p, lo - off, hi - lo)), hi - lo, al))
            off += n
        return PieceStr(out)

    def may_be_space(self, i):
        c, al = self.at(i)
        return c.isspace() if c is not None else any(x.isspace() for x in al)


class HdrMachine(StructMachine):
    def __init__(self, prog):
        super().__init__(prog, K=1)
        self.written = []

    def builtin_method(self, recv, meth, args, e, fr, guard):
        if isinstance(recv, PieceStr):
            if meth == "len":
                return recv.total()
            if meth == "is_empty":
                return recv.total() == 0
            if meth == "contains" and args and isinstance(args[0], str):
                return recv.find(args[0]) >= 0
            if meth == "find" and args and isinstance(args[0], str):
                i = recv.find(args[0])
                return Opt(i >= 0, i if i >= 0 else 0)
            if meth == "starts_with" and args and isinstance(args[0], str) and not any(c.isalnum() or c == "/" for c in args[0]):
                return recv.find(args[0]) == 0
            if meth in ("to_string", "to_owned", "clone", "as_str"):
                return recv
            if meth == "trim" and (recv.total() == 0 or not (recv.may_be_space(0) or recv.may_be_space(recv.total() - 1))):
                return recv
            if meth in ("strip_suffix", "strip_prefix", "ends_with", "starts_with") and args and isinstance(args[0], str) and args[0]:
                nd, tot = args[0], recv.total()
                if len(nd) > tot:
                    hit = False
                else:
                    off = tot - len(nd) if meth in ("strip_suffix", "ends_with") else 0
                    hit = True
                    for k, ch in enumerate(nd):
                        c, al = recv.at(off + k)
                        if c is None:
                            if ch in al:
                                raise Unsupported("%s(%r) depends on a symbolic character" % (meth, nd))
                            hit = False
                            break
                        if c != ch:
                            hit = False
                            break
                if meth in ("ends_with", "starts_with"):
                    return hit
                if not hit:
                    return Opt(False, None)
                return Opt(True, recv.slice(0, tot - len(nd)) if meth == "strip_suffix" else recv.slice(len(nd), tot))
            if meth == "trim":
                # s = lead ++ t ++ trail with lead, trail blank and t neither starting nor ending with a blank (unique)
                n = len(self.constraints)
                lead, t, trail = (z3.String(self.fresh_name("trim_" + k)) for k in ("lead", "mid", "trail"))
                ws = z3.Union(z3.Re(" "), z3.Re("\t"), z3.Re("\n"), z3.Re("\r"))
                anyc = z3.Full(z3.ReSort(z3.StringSort()))
                self.constraints += [recv.s == z3.Concat(lead, t, trail), z3.InRe(lead, z3.Star(ws)), z3.InRe(trail, z3.Star(ws)),
                                     z3.Not(z3.InRe(t, z3.Concat(ws, anyc))), z3.Not(z3.InRe(t, z3.Concat(anyc, ws)))]
                return StrZ(t)
            if meth == "find" and args and isinstance(args[0], str) is False and getattr(args[0], "allowed", None) is None and isinstance(args[0], StrZ):
                raise Unsupported("find with a symbolic needle")
        return super().builtin_method(recv, meth, args, e, fr, guard)

    def ev_index(self, e, fr, guard):
        base = self.eval(e["base"], fr, guard)
        idx = e["index"]
        if isinstance(base, PieceStr) and idx["k"] == "range":
            a = self.eval(idx["start"], fr, guard) if idx.get("start") is not None else 0
            b = self.eval(idx["end"], fr, guard) if idx.get("end") is not None else base.total()
            if isinstance(a, int) and isinstance(b, int):
                if idx.get("closed"):
                    b += 1
                if not 0 <= a <= b <= base.total():
                    raise Unsupported("slice [%d..%d] of a %d-character header text: the real code panics here" % (a, b, base.total()))
                return base.slice(a, b)
        return super().ev_index(e, fr, guard)

    def display_of(self, v, fr):
        return _display_of(self, v, fr)

    def ev_macro(self, e, fr, guard):
        name = e["name"].split("::")[-1]
        if name in ("write", "writeln"):
            args = e.get("args") or []
            if len(args) >= 2 and args[1]["k"] == "lit":
                vals = [self.eval(a, fr, guard) for a in args[2:]]
                r = self.format_z(args[1]["lit"]["v"], vals, fr)
                if r is None:
                    raise Unsupported("write! template")
                self.written.append((self.live(fr, guard), r))
                return Res(True, UNIT, Opaque("fmt::Error"))
            raise Unsupported("write! form")
        return super().ev_macro(e, fr, guard)


def display_text(m, prog, val, ty):
    """the text Display::fmt of `val` writes (z3 string)"""
    fn = prog.fns.get((ty, "fmt", True))
    if fn is None:
        raise Unsupported("no Display impl for %s" % ty)
    before = len(m.written)
    m.call_fn(fn[0], [val, StructV("Formatter", {})], True, self_ty=ty)
    pieces = m.written[before:]
    del m.written[before:]
    if not pieces:
        raise Unsupported("Display of %s writes nothing" % ty)
    out = z3.StringVal("")
    for g, piece in pieces:
        z = to_strz(piece)
        nxt = z3.Concat(out, z)
        if is_sym(g):
            out = z3.If(B(g), nxt, out)
        elif g:
            out = nxt
    return out


def _display_of(self, v, fr):
    vals = []
    for g, x in alt_of(v):
        ty = x.name
        vals.append((g, display_text(self, self.prog, x, ty)))
    out = vals[-1][1]
    for g, z in reversed(vals[:-1]):
        out = z3.If(B(g), z, out) if is_sym(g) else (z if g else out)
    return StrZ(out)


def roundtrip(prog, ty, maxlen, timeout_ms=60000):
    """parse(Display(parse(s))) == parse(s), Display is a fixed point and reproduces s, for every ASCII string s"""
    from common import replay_batch
    from fieldcheck import val_eq
    res = []
    t0 = time.time()
    try:
        m = HdrMachine(prog)
        sv = z3.String("hdr_in")
        m.constraints += [z3.Length(sv) <= maxlen, z3.InRe(sv, z3.Star(z3.Range(" ", "~")))]
        parse = prog.method(ty, "parse")
        r1, _ = m.call_fn(parse[0], [StrZ(sv)], True, self_ty=ty)
        if not isinstance(r1, Res) or r1.val is None:
            raise Unsupported("parse did not return a Result with a value")
        o1 = _display_of(m, r1.val, None).s
    except Unsupported as e:
        return [{"type": ty, "query": "round trip", "verdict": "not-encoded", "detail": str(e)[:300], "time_s": 0}]
    # documented shapes of block 2: input 17 chars, or 18 / 21 with an alphanumeric monitoring code; output 46 or 47
    code17 = z3.StrToCode(z3.SubString(sv, 17, 1))
    alnum17 = z3.Or(z3.And(code17 >= 48, code17 <= 57), z3.And(code17 >= 65, code17 <= 90), z3.And(code17 >= 97, code17 <= 122))
    documented = z3.Or(z3.And(z3.PrefixOf(z3.StringVal("I"), sv), z3.Or(z3.Length(sv) == 17, z3.And(z3.Or(z3.Length(sv) == 18, z3.Length(sv) == 21), alnum17))),
                       z3.And(z3.PrefixOf(z3.StringVal("O"), sv), z3.Or(z3.Length(sv) == 46, z3.Length(sv) == 47))) if ty == "ApplicationHeader" else z3.BoolVal(True)
    # Display(parse(s)) == s for every accepted s implies the re-parse equality and the fixed point
    if ty == "ApplicationHeader":
        queries = [("Display(parse(s)) reproduces s for documented %d-character blocks" % L, z3.And(documented, z3.Length(sv) == L, o1 != sv), None)
                   for L in (17, 18, 21, 46, 47)]
    else:
        queries = [("Display(parse(s)) reproduces s (hence re-parse equal, fixed point)", z3.And(documented, o1 != sv), None)]
    if ty == "ApplicationHeader":
        queries.append(("accepted block 2 has a documented shape (nothing trailing is ignored)", z3.Not(documented), "undocumented-shape"))
    for name, viol, tagk in queries:
        s = z3.Solver()
        s.set("timeout", timeout_ms)
        s.add(*m.constraints)
        s.add(B(r1.ok), viol)
        t1 = time.time()
        r = s.check()
        rec = {"type": ty, "query": name, "verdict": str(r), "time_s": round(time.time() - t1, 2), "tag": tagk}
        if r == z3.sat:
            text = structsym._zstr(s.model().eval(sv, model_completion=True))
            real = replay_batch([{"op": "header_roundtrip", "type": ty, "text": text}], "dev")[0]
            rec["witness"] = {"type": ty, "text": text, "real": real}
            if real.get("ok") and (real.get("text") != text or not real.get("reparse_equal") or real.get("text2") != real.get("text")):
                rec["witness"]["why"] = "%s %r is accepted and written back as %r (re-parse equal: %s)" % (ty, text, real.get("text"), real.get("reparse_equal"))
            elif real.get("ok"):
                rec["verdict"] = "sat-not-reproduced"
            else:
                rec["verdict"] = "sat-not-reproduced"
                rec["detail"] = "real parser rejects the witness"
        res.append(rec)
    return res


ALNUM = z3.Union(z3.Range("A", "Z"), z3.Range("0", "9"))
XCLS = z3.Union(ALNUM, z3.Re("/"))

# documented shapes of the structured block-3 / block-5 tags, as pieces: ("a", n) = n letters or digits, ("x", n) = n letters,
# digits or slashes, a python string = literal text. (Written from the tag descriptions in the struct documentation.)
DOCUMENTED_SHAPES = {
    ("UserHeader", "106"): [[("x", 28)]],
    ("UserHeader", "423"): [[("a", 12)], [("a", 14)]],
    ("UserHeader", "165"): [[("a", 3)], [("a", 3), "/", ("x", 1)], [("a", 3), "/", ("x", 7)]],
    ("UserHeader", "433"): [[("a", 3)], [("a", 3), "/", ("x", 1)], [("a", 3), "/", ("x", 7)]],
    ("UserHeader", "434"): [[("a", 3)], [("a", 3), "/", ("x", 1)], [("a", 3), "/", ("x", 7)]],
    ("Trailer", "PDE"): [[], [("a", 4)], [("a", 4), ("a", 6), ("x", 12), ("a", 4), ("a", 6)]],
    ("Trailer", "PDM"): [[], [("a", 4)], [("a", 4), ("a", 6), ("x", 12), ("a", 4), ("a", 6)]],
    ("Trailer", "MRF"): [[("a", 6), ("a", 4), ("a", 6), ("x", 12), ("a", 4), ("a", 6)]],
    ("Trailer", "SYS"): [[], [("a", 4)], [("a", 4), ("a", 6), ("x", 12), ("a", 4), ("a", 6)]],
}
# other lengths of the same tags (not a documented shape): must not be partly read
OTHER_SHAPES = {
    ("UserHeader", "106"): [[("x", 10)], [("x", 27)]],
    ("UserHeader", "423"): [[("a", 5)], [("a", 11)]],
    ("UserHeader", "165"): [[("x", 2)], [("x", 4)], [("x", 8)]],
    ("UserHeader", "433"): [[("x", 2)], [("x", 4)], [("x", 8)]],
    ("UserHeader", "434"): [[("x", 2)], [("x", 4)], [("x", 8)]],
}
PLAIN_LENGTHS = (1, 4, 16)


def tag_roundtrip(prog, timeout_ms=60000):
    """Block 3 / block 5 holding ONE recognised tag: Display(parse(text)) == text, parse and Display executed from source on
    a text whose tag value is symbolic (fixed length per query, characters letters / digits / slash)."""
    from common import replay_batch
    res = []
    for ty in ("UserHeader", "Trailer"):
        sd = prog.structs[ty]
        parse = prog.method(ty, "parse")
        for f in sd["fields"]:
            doc = " ".join(f["meta"].get("doc", []))
            mt = re.match(r"\s*(?:Tag\s+)?([0-9]{3}|[A-Z]{3})\s+-", doc)
            if not mt:
                continue
            tag = mt.group(1)
            fty = f["ty"].replace(" ", "")
            cases = []
            if fty == "Option<bool>":
                cases.append(("empty tag", None, "documented"))
            elif (ty, tag) in DOCUMENTED_SHAPES:
                cases += [("documented shape %s" % shape_name(sh), sh, "documented") for sh in DOCUMENTED_SHAPES[(ty, tag)]]
                cases += [("other shape %s" % shape_name(sh), sh, "other") for sh in OTHER_SHAPES.get((ty, tag), [])]
            else:
                cases += [("value of %d characters" % n, [("x", n)], "documented") for n in PLAIN_LENGTHS]
            for cname, shape, kind in cases:
                m = HdrMachine(prog)
                pieces, syms = [], []
                if shape is None:
                    pieces = [("{%s}" % tag, len(tag) + 2)]
                else:
                    pieces.append(("{%s:" % tag, len(tag) + 2))
                    for k, p in enumerate(shape):
                        if isinstance(p, str):
                            pieces.append((p, len(p)))
                        else:
                            v = z3.String("v%d" % k)
                            m.constraints += [z3.Length(v) == p[1], z3.InRe(v, z3.Star(ALNUM if p[0] == "a" else XCLS))]
                            pieces.append((v, p[1]))
                            syms.append(v)
                    pieces.append(("}", 1))
                text = PieceStr(pieces)
                q = "%s tag %s, %s: Display(parse(text)) reproduces the text" % ("block 3" if ty == "UserHeader" else "block 5", tag, cname)
                rec = {"type": ty, "query": q, "tag": tag, "kf": "%s-%s" % ("parse-drops" if kind == "documented" else "wrong-shape-partly-read", tag)}
                t0 = time.time()
                try:
                    r1, _ = m.call_fn(parse[0], [text], True, self_ty=ty)
                    if not isinstance(r1, Res) or r1.val is None:
                        raise Unsupported("parse did not return a Result with a value")
                    o1 = _display_of(m, r1.val, None).s
                except Unsupported as e:
                    rec.update({"verdict": "not-encoded", "detail": str(e)[:300], "time_s": 0})
                    res.append(rec)
                    continue
                s = z3.Solver()
                s.set("timeout", timeout_ms)
                s.add(*m.constraints)
                if s.check() != z3.sat:
                    rec.update({"verdict": "error", "detail": "vacuous: the constraints on the symbolic text are not satisfiable", "time_s": 0})
                    res.append(rec)
                    continue
                s.add(B(r1.ok), o1 != text.s)
                r = s.check()
                rec.update({"verdict": str(r), "time_s": round(time.time() - t0, 2)})
                if r == z3.sat:
                    t = structsym._zstr(s.model().eval(text.s, model_completion=True))
                    real = replay_batch([{"op": "header_roundtrip", "type": ty, "text": t}], "dev")[0]
                    rec["witness"] = {"type": ty, "text": t, "real": real}
                    if real.get("ok") and real.get("text") != t:
                        rec["witness"]["why"] = "%s %r is accepted and written back as %r" % (ty, t, real.get("text"))
                    else:
                        rec["verdict"] = "sat-not-reproduced"
                        rec["detail"] = str(real)[:200]
                res.append(rec)
    return res


def shape_name(sh):
    return "".join(p if isinstance(p, str) else "%d%s" % (p[1], p[0]) for p in sh) or "(empty)"


def contains_lit(term, lit):
    """condition under which the string term contains `lit`, given that string variables are brace-free
    (so a '{TAG' substring can only come from a literal piece of the template)"""
    if z3.is_string_value(term):
        return lit in structsym._zstr(term)
    k = term.decl().kind()
    if k == z3.Z3_OP_SEQ_CONCAT:
        return Or(*[contains_lit(c, lit) for c in term.children()])
    if k == z3.Z3_OP_ITE:
        c, a, b = term.children()
        return Or(And(c, contains_lit(a, lit)), And(z3.Not(c), contains_lit(b, lit)))
    return False


def contains_tagged_value(term, tag, value):
    """condition under which the term contains the pieces  ...{TAG:  <value>  }...  consecutively inside one
    concatenation (the shape `format!("{{TAG:{value}}}")` produces)"""
    if z3.is_string_value(term):
        return False
    k = term.decl().kind()
    if k == z3.Z3_OP_SEQ_CONCAT:
        ch = []

        def flat(t):
            if t.decl().kind() == z3.Z3_OP_SEQ_CONCAT:
                for c in t.children():
                    flat(c)
            else:
                ch.append(t)
        flat(term)
        here = False
        for i in range(len(ch) - 2):
            if z3.is_string_value(ch[i]) and structsym._zstr(ch[i]).endswith("{" + tag + ":") and ch[i + 1].eq(value) \
                    and z3.is_string_value(ch[i + 2]) and structsym._zstr(ch[i + 2]).startswith("}"):
                here = True
        return Or(here, *[contains_tagged_value(c, tag, value) for c in ch])
    if k == z3.Z3_OP_ITE:
        c, a, b = term.children()
        return Or(And(c, contains_tagged_value(a, tag, value)), And(z3.Not(c), contains_tagged_value(b, tag, value)))
    return False


def run(timeout_ms=60000):
    from common import replay_batch
    prog = Program(layout_mod.extract_ast())
    res = []
    for ty in ("UserHeader", "Trailer"):
        sd = prog.structs[ty]
        m = HdrMachine(prog)
        inst = m.make(ty, ty)
        # tag values never contain braces; short values suffice for the tag-presence question
        cls = z3.Star(z3.Union(z3.Range("A", "Z"), z3.Range("0", "9"), z3.Re("/")))
        for path, kind, term in m.leaves:
            if kind == "str":
                m.constraints += [z3.InRe(term, cls), z3.Length(term) <= 4]
        fn = prog.fns.get((ty, "fmt", True))
        try:
            m.call_fn(fn[0], [inst, StructV("Formatter", {})], True, self_ty=ty)
            if len(m.written) != 1:
                raise Unsupported("Display writes %d times" % len(m.written))
            out = to_strz(m.written[0][1])
        except Unsupported as e:
            res.append({"type": ty, "query": "Display", "verdict": "not-encoded", "detail": str(e), "time_s": 0})
            continue
        for f in sd["fields"]:
            doc = " ".join(f["meta"].get("doc", []))
            mt = re.match(r"\s*(?:Tag\s+)?([0-9]{3}|[A-Z]{3})\s+-", doc)
            if not mt:
                res.append({"type": ty, "query": "documented tag of %s" % f["name"], "verdict": "not-encoded", "detail": "no 'Tag NNN -' doc line", "time_s": 0})
                continue
            tag = mt.group(1)
            v = inst.fields[f["name"]]
            if not isinstance(v, Opt):
                continue
            cond = v.present
            want = z3.StringVal("{" + tag)
            if isinstance(v.val, StrZ):
                want = z3.Concat(z3.StringVal("{" + tag + ":"), v.val.s, z3.StringVal("}"))
            elif is_sym(v.val) and z3.is_bool(v.val):
                cond = z3.And(B(v.present), v.val)      # empty tags ({TNG}, {DLM}) are written when the flag is true
            s = z3.Solver()
            s.set("timeout", timeout_ms)
            s.add(*m.constraints)
            written = contains_lit(out, "{" + tag)
            if isinstance(v.val, StrZ):
                s.add(B(cond), z3.Not(B(contains_tagged_value(out, tag, v.val.s))))
            else:
                s.add(B(cond), z3.Not(B(written)))
            t0 = time.time()
            r = s.check()
            rec = {"type": ty, "query": "tag %s (%s) held by the header is written by Display" % (tag, f["name"]), "verdict": str(r),
                   "time_s": round(time.time() - t0, 2), "tag": tag}
            if r == z3.sat:
                model = s.model()
                _, js = structsym.to_json(prog, model, inst)
                real = replay_batch([{"op": "header_json", "type": ty, "json": js}], "dev")[0]
                rec["witness"] = {"type": ty, "json": js, "real": real}
                if real.get("ok") and ("{" + tag) not in real.get("text", ""):
                    rec["witness"]["why"] = "%s holding tag %s is displayed as %r" % (ty, tag, real.get("text"))
                elif real.get("ok"):
                    rec["verdict"] = "sat-not-reproduced"
                else:
                    rec["verdict"] = "sat-not-replayable"
                    rec["detail"] = str(real)[:200]
            res.append(rec)
    for ty, maxlen in (("BasicHeader", 26), ("ApplicationHeader", 48)):
        res += roundtrip(prog, ty, maxlen)
    res += tag_roundtrip(prog, timeout_ms)
    return res


if __name__ == "__main__":
    for r in run():
        print("%-10s %-18s %5.2fs %s %s" % (r["type"], r["verdict"], r.get("time_s", 0), r["query"][:70], json.dumps(r.get("witness") or r.get("detail") or "")[:300]))
