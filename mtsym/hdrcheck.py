"""C10: block 3 / block 5 — every tag the struct documents and holds is written by Display
(executed from source on a symbolic header instance)."""
import json
import os
import re
import sys
import time

HERE = os.path.dirname(os.path.abspath(__file__))
sys.path.insert(0, HERE)
sys.path.insert(0, os.path.join(os.path.dirname(HERE), "lib"))

import z3  # noqa
import layout as layout_mod  # noqa
from structsym import *  # noqa
import structsym  # noqa


class HdrMachine(StructMachine):
    def __init__(self, prog):
        super().__init__(prog, K=1)
        self.written = []

    def ev_macro(self, e, fr, guard):
        name = e["name"].split("::")[-1]
        if name in ("write", "writeln"):
            args = e.get("args") or []
            if len(args) >= 2 and args[1]["k"] == "lit":
                vals = [self.eval(a, fr, guard) for a in args[2:]]
                r = self.format_z(args[1]["lit"]["v"], vals, fr)
                if r is None:
                    raise Unsupported("write! template")
                self.written.append((self.live(fr, guard), r))
                return Res(True, UNIT, Opaque("fmt::Error"))
            raise Unsupported("write! form")
        return super().ev_macro(e, fr, guard)


def contains_lit(term, lit):
    """condition under which the string term contains `lit`, given that string variables are brace-free
    (so a '{TAG' substring can only come from a literal piece of the template)"""
    if z3.is_string_value(term):
        return lit in structsym._zstr(term)
    k = term.decl().kind()
    if k == z3.Z3_OP_SEQ_CONCAT:
        return Or(*[contains_lit(c, lit) for c in term.children()])
    if k == z3.Z3_OP_ITE:
        c, a, b = term.children()
        return Or(And(c, contains_lit(a, lit)), And(z3.Not(c), contains_lit(b, lit)))
    return False


def contains_tagged_value(term, tag, value):
    """condition under which the term contains the pieces  ...{TAG:  <value>  }...  consecutively inside one
    concatenation (the shape `format!("{{TAG:{value}}}")` produces)"""
    if z3.is_string_value(term):
        return False
    k = term.decl().kind()
    if k == z3.Z3_OP_SEQ_CONCAT:
        ch = []

        def flat(t):
            if t.decl().kind() == z3.Z3_OP_SEQ_CONCAT:
                for c in t.children():
                    flat(c)
            else:
                ch.append(t)
        flat(term)
        here = False
        for i in range(len(ch) - 2):
            if z3.is_string_value(ch[i]) and structsym._zstr(ch[i]).endswith("{" + tag + ":") and ch[i + 1].eq(value) \
                    and z3.is_string_value(ch[i + 2]) and structsym._zstr(ch[i + 2]).startswith("}"):
                here = True
        return Or(here, *[contains_tagged_value(c, tag, value) for c in ch])
    if k == z3.Z3_OP_ITE:
        c, a, b = term.children()
        return Or(And(c, contains_tagged_value(a, tag, value)), And(z3.Not(c), contains_tagged_value(b, tag, value)))
    return False


def run(timeout_ms=60000):
    from common import replay_batch
    prog = Program(layout_mod.extract_ast())
    res = []
    for ty in ("UserHeader", "Trailer"):
        sd = prog.structs[ty]
        m = HdrMachine(prog)
        inst = m.make(ty, ty)
        # tag values never contain braces; short values suffice for the tag-presence question
        cls = z3.Star(z3.Union(z3.Range("A", "Z"), z3.Range("0", "9"), z3.Re("/")))
        for path, kind, term in m.leaves:
            if kind == "str":
                m.constraints += [z3.InRe(term, cls), z3.Length(term) <= 4]
        fn = prog.fns.get((ty, "fmt", True))
        try:
            m.call_fn(fn[0], [inst, StructV("Formatter", {})], True, self_ty=ty)
            if len(m.written) != 1:
                raise Unsupported("Display writes %d times" % len(m.written))
            out = to_strz(m.written[0][1])
        except Unsupported as e:
            res.append({"type": ty, "query": "Display", "verdict": "not-encoded", "detail": str(e), "time_s": 0})
            continue
        for f in sd["fields"]:
            doc = " ".join(f["meta"].get("doc", []))
            mt = re.match(r"\s*(?:Tag\s+)?([0-9]{3}|[A-Z]{3})\s+-", doc)
            if not mt:
                res.append({"type": ty, "query": "documented tag of %s" % f["name"], "verdict": "not-encoded", "detail": "no 'Tag NNN -' doc line", "time_s": 0})
                continue
            tag = mt.group(1)
            v = inst.fields[f["name"]]
            if not isinstance(v, Opt):
                continue
            cond = v.present
            want = z3.StringVal("{" + tag)
            if isinstance(v.val, StrZ):
                want = z3.Concat(z3.StringVal("{" + tag + ":"), v.val.s, z3.StringVal("}"))
            elif is_sym(v.val) and z3.is_bool(v.val):
                cond = z3.And(B(v.present), v.val)      # empty tags ({TNG}, {DLM}) are written when the flag is true
            s = z3.Solver()
            s.set("timeout", timeout_ms)
            s.add(*m.constraints)
            written = contains_lit(out, "{" + tag)
            if isinstance(v.val, StrZ):
                s.add(B(cond), z3.Not(B(contains_tagged_value(out, tag, v.val.s))))
            else:
                s.add(B(cond), z3.Not(B(written)))
            t0 = time.time()
            r = s.check()
            rec = {"type": ty, "query": "tag %s (%s) held by the header is written by Display" % (tag, f["name"]), "verdict": str(r),
                   "time_s": round(time.time() - t0, 2), "tag": tag}
            if r == z3.sat:
                model = s.model()
                _, js = structsym.to_json(prog, model, inst)
                real = replay_batch([{"op": "header_json", "type": ty, "json": js}], "dev")[0]
                rec["witness"] = {"type": ty, "json": js, "real": real}
                if real.get("ok") and ("{" + tag) not in real.get("text", ""):
                    rec["witness"]["why"] = "%s holding tag %s is displayed as %r" % (ty, tag, real.get("text"))
                elif real.get("ok"):
                    rec["verdict"] = "sat-not-reproduced"
                else:
                    rec["verdict"] = "sat-not-replayable"
                    rec["detail"] = str(real)[:200]
            res.append(rec)
    return res


if __name__ == "__main__":
    for r in run():
        print("%-10s %-18s %5.2fs %s %s" % (r["type"], r["verdict"], r.get("time_s", 0), r["query"][:70], json.dumps(r.get("witness") or r.get("detail") or "")[:300]))
