"""C10 / C07: SwiftParser::extract_block (and find_matching_brace), executed from source on messages given as structured text.

A message is a sequence of pieces: the block delimiters and the fixed field / tag markers as literal text, and the block
contents as symbolic pieces of fixed length over their SWIFT character classes (block 1/2: letters, digits, blanks; tag values of
block 3/5: letters, digits, '/'; field contents of block 4: the x character set without line breaks, so '-', ':' and ',' occur
inside the text). For every template and every block index k the text returned by extract_block(message, k) must be exactly the
piece the template put between `{k:` and the block's closing delimiter (None when the block is absent) — whatever characters
the contents hold. Loops are unrolled with unwinding assertions; a loop that is still running after the bound on a concrete
position is reported as a hang and confirmed by running the real function under a time limit.
"""
import json
import os
import sys
import time

HERE = os.path.dirname(os.path.abspath(__file__))
sys.path.insert(0, HERE)
sys.path.insert(0, os.path.join(os.path.dirname(HERE), "lib"))

import z3  # noqa
import layout as layout_mod  # noqa
from structsym import *  # noqa
import structsym  # noqa
from hdrcheck import HdrMachine, PieceStr, SymChar  # noqa

ALNUM = frozenset("ABCDEFGHIJKLMNOPQRSTUVWXYZ0123456789")
HDR = frozenset(ALNUM | {" "})
TAGV = frozenset(ALNUM | {"/"})
XTEXT = frozenset("abcdefghijklmnopqrstuvwxyzABCDEFGHIJKLMNOPQRSTUVWXYZ0123456789/-?:().,'+ ")


class IterV:
    """a by-value iterator over concrete items with a concrete cursor (char_indices of a structured text)"""
    __slots__ = ("items", "cur")

    def __init__(self, items, cur=0):
        self.items, self.cur = items, cur


class BlockMachine(HdrMachine):
    def __init__(self, prog):
        super().__init__(prog)
        self.unroll = 12

    def builtin_method(self, recv, meth, args, e, fr, guard):
        if isinstance(recv, PieceStr) and meth == "char_indices":
            return IterV([TupleV((i, recv.sym_char(i))) for i in range(recv.total())])
        if isinstance(recv, PieceStr) and meth == "lines":
            raise Unsupported("lines() on a structured message text")
        if isinstance(recv, IterV):
            if meth == "next":
                self.assign(e["recv"], IterV(recv.items, recv.cur + 1), fr, guard)
                return Opt(True, recv.items[recv.cur]) if recv.cur < len(recv.items) else Opt(False, None)
        return super().builtin_method(recv, meth, args, e, fr, guard)

    def iter_value(self, it):
        if isinstance(it, IterV):
            return VecV(tuple((True, x) for x in it.items[it.cur:]))
        return super().iter_value(it)

    def ev_macro(self, e, fr, guard):
        name = e["name"].split("::")[-1]
        if name == "format":
            args = e.get("args") or []
            if args and args[0]["k"] == "lit" and args[0]["lit"].get("k") == "str":
                vals = [self.eval(a, fr, guard) for a in args[1:]]
                if all(isinstance(v, (int, str)) and not isinstance(v, bool) for v in vals):
                    tmpl, out, k = args[0]["lit"]["v"], "", 0
                    # {{ }} escapes, {} and {name} placeholders with concrete values
                    i = 0
                    while i < len(tmpl):
                        if tmpl.startswith("{{", i):
                            out += "{"
                            i += 2
                        elif tmpl.startswith("}}", i):
                            out += "}"
                            i += 2
                        elif tmpl[i] == "{":
                            j = tmpl.index("}", i)
                            nm = tmpl[i + 1:j]
                            if nm == "":
                                out += str(vals[k])
                                k += 1
                            elif nm in fr.vars and isinstance(fr.vars[nm], (int, str)):
                                out += str(fr.vars[nm])
                            else:
                                return super().ev_macro(e, fr, guard)
                            i = j + 1
                        else:
                            out += tmpl[i]
                            i += 1
                    return out
        return super().ev_macro(e, fr, guard)


def sym(m, name, n, allowed):
    v = z3.String(name)
    m.constraints += [z3.Length(v) == n, z3.InRe(v, z3.Star(z3.Union(*[z3.Re(c) for c in sorted(allowed)])))]
    return (v, n, allowed)


def templates(m):
    """(name, pieces, {block index: expected piece list or None})"""
    out = []

    def msg(name, b3, b5, compact, b4_dash):
        P, exp = [], {}
        b1, b2 = sym(m, name + "_b1", 25, HDR), sym(m, name + "_b2", 17, HDR)
        P += [("{1:", 3), b1, ("}", 1), ("{2:", 3), b2, ("}", 1)]
        exp[1], exp[2] = [b1], [b2]
        if b3:
            v1, v2 = sym(m, name + "_108", 6, TAGV), sym(m, name + "_121", 8, TAGV)
            inner = [("{108:", 5), v1, ("}", 1), ("{121:", 5), v2, ("}", 1)]
            P += [("{3:", 3)] + inner + [("}", 1)]
            exp[3] = inner
        else:
            exp[3] = None
        c1, c2 = sym(m, name + "_f20", 7, XTEXT), sym(m, name + "_f79", 9, XTEXT)
        body = [("\r\n:20:", 6), c1, ("\r\n:79:", 6), c2]
        if b4_dash:
            body += [("-", 1), sym(m, name + "_f79b", 3, XTEXT)]      # a hyphen inside the last field's text
        if not compact:
            body += [("\r\n", 2)]
        P += [("{4:", 3)] + body + [("-}", 2)]
        exp[4] = body
        if b5:
            chk = sym(m, name + "_chk", 12, ALNUM)
            inner = [("{CHK:", 5), chk, ("}", 1), ("{TNG}", 5)]
            P += [("{5:", 3)] + inner + [("}", 1)]
            exp[5] = inner
        else:
            exp[5] = None
        out.append((name, P, exp))
    msg("full", True, True, False, False)
    msg("no35", False, False, False, False)
    msg("compact", True, False, True, False)
    msg("hyphen", False, True, False, True)
    msg("compacthyphen", False, False, True, True)
    return out


def run(timeout_ms=60000):
    from common import replay_batch
    prog = Program(layout_mod.extract_ast())
    res = []
    fn = prog.method("SwiftParser", "extract_block")
    if fn is None:
        return [{"type": "extract_block", "query": "SwiftParser::extract_block", "verdict": "not-encoded", "detail": "function not found"}]
    m0 = BlockMachine(prog)
    for name, pieces, exp in templates(m0):
        for k in (1, 2, 3, 4, 5):
            m = BlockMachine(prog)
            m.constraints = list(m0.constraints)
            text = PieceStr(pieces)
            q = "extract_block(message '%s', %d) returns exactly the text of block %d" % (name, k, k)
            rec = {"type": "extract_block", "query": q, "template": name, "block": k}
            t0 = time.time()
            try:
                r, _ = m.call_fn(fn[0], [text, k], True, self_ty="SwiftParser")
                if not isinstance(r, Res) or not isinstance(r.val, Opt):
                    raise Unsupported("extract_block did not return Result<Option<String>>")
                want = exp[k]
                hang = [g for g, line in m.unwind_obl if not is_sym(g) and g]
                sym_unwind = [g for g, line in m.unwind_obl if is_sym(g)]
                if hang:
                    bad = True
                elif want is None:
                    bad = Or(Not(r.ok), r.val.present)
                else:
                    w = PieceStr(want)
                    bad = Or(Not(r.ok), Not(r.val.present), to_strz(r.val.val) != w.s) if r.val.val is not None else True
                if sym_unwind:
                    bad = Or(bad, *sym_unwind)
            except Unsupported as e:
                rec.update({"verdict": "not-encoded", "detail": str(e)[:300], "time_s": 0})
                res.append(rec)
                continue
            s = z3.Solver()
            s.set("timeout", timeout_ms)
            s.add(*m.constraints)
            if s.check() != z3.sat:
                rec.update({"verdict": "error", "detail": "vacuous: the constraints on the symbolic text are not satisfiable", "time_s": 0})
                res.append(rec)
                continue
            s.add(B(bad))
            rr = s.check()
            rec.update({"verdict": str(rr), "time_s": round(time.time() - t0, 2)})
            if rr == z3.sat:
                mdl = s.model()
                t = structsym._zstr(mdl.eval(text.s, model_completion=True))
                wtxt = None if want is None else structsym._zstr(mdl.eval(PieceStr(want).s, model_completion=True))
                real = replay_batch([{"op": "extract_block", "text": t, "block": k}], "dev", timeout=20)[0]
                rec["witness"] = {"text": t, "block": k, "expected": wtxt, "real": real}
                if real.get("outcome") == "hang":
                    rec["witness"]["why"] = "extract_block(%r, %d) does not return (no answer within 20 s)" % (t, k)
                elif real.get("panic"):
                    rec["witness"]["why"] = "extract_block(%r, %d) panics: %s" % (t, k, str(real["panic"])[:200])
                elif real.get("ok") and real.get("block") != wtxt:
                    rec["witness"]["why"] = "extract_block(%r, %d) returns %r, the block's text is %r" % (t, k, real.get("block"), wtxt)
                elif not real.get("ok"):
                    rec["witness"]["why"] = "extract_block(%r, %d) fails: %s" % (t, k, str(real)[:200])
                else:
                    rec["verdict"] = "sat-not-reproduced"
            res.append(rec)
    return res


if __name__ == "__main__":
    for r in run():
        print("%-10s %-18s %5.2fs %s %s" % (r.get("template"), r["verdict"], r.get("time_s", 0), r["query"][:75],
                                            json.dumps((r.get("witness") or {}).get("why") or r.get("detail") or "")[:300]))
