"""Token-machine queries (C01/C02/C03/C09) and concretisation of models into MT text."""
import sys
import time

import z3

from interp import *  # noqa
import layout as layout_mod


class TokenQueries:
    def __init__(self, prog, ty, N, tags, unroll=None, cap_scale=None):
        self.prog, self.ty, self.N, self.tags = prog, ty, N, tags
        # adaptive unrolling: the smallest K whose unwinding assertions are all unsatisfiable
        self.unwind_time = 0.0
        K = unroll if unroll is not None else 1
        while True:
            self.L = layout_mod.Layout(prog, ty, N, unroll=K, cap_scale=cap_scale, tags=tags)
            self.m = self.L.m
            if unroll is not None or not self.m.unwind_obl:
                break
            t0 = time.time()
            r, _, _, _ = self.check(Or(*[g for g, _ in self.m.unwind_obl]))
            self.unwind_time += time.time() - t0
            if r == z3.unsat:
                break
            if r != z3.sat:
                raise Unsupported("unwinding assertion undecided at K=%d" % K)
            K += 1
            if K > N + 1:
                raise Unsupported("loop bound exceeds token budget + 1")
        self.K = K

    def emit_tag_alts(self, fv):
        return self.m.emit_tag_alts(fv)

    def repr_violation(self):
        """Formula: the accepted input is NOT reproduced by serialisation at token level
        (some token missing, reordered/duplicated, or emitted under a different tag).
        Emitted indices strictly increasing, all inside [0,n), and as many as n <=> identity."""
        m, L = self.m, self.L
        viol = []
        prev = IntV(-1)
        cnt = IntV(0)
        for g, fv in L.fields:
            idx = fv.idx if is_sym(fv.idx) else IntV(fv.idx)
            viol.append(And(g, Or(idx <= prev, idx < 0, idx >= m.n)))
            prev = z3.If(B(g), idx, prev)
            cnt = cnt + z3.If(B(g), IntV(1), IntV(0))
            same = Or(*[And(ga, m.tag_at(fv.idx) == m.sid(t)) for ga, t in self.emit_tag_alts(fv)])
            viol.append(And(g, Not(same)))
        viol.append(cnt != m.n)
        return Or(*viol)

    def diagnose(self, model):
        """Which clause of repr_violation does the model satisfy?"""
        m, L = self.m, self.L
        ev = lambda t: model.eval(B(t), model_completion=True)
        out = []
        fields = L.fields
        n = model.eval(m.n, model_completion=True).as_long()
        act = [(k, model.eval(fv.idx, model_completion=True).as_long() if is_sym(fv.idx) else fv.idx, fv)
               for k, (g, fv) in enumerate(fields) if z3.is_true(ev(g))]
        emitted = [i for _, i, _ in act]
        for i in range(n):
            if i not in emitted:
                out.append("token %d not emitted" % i)
        if emitted != sorted(emitted) or len(set(emitted)) != len(emitted):
            out.append("emission order %s" % emitted)
        for k, i, fv in act:
            tg = [t for ga, t in self.emit_tag_alts(fv) if z3.is_true(ev(ga))]
            tid = model.eval(m.tag[i], model_completion=True).as_long() if 0 <= i < self.N else -1
            it = m.strtab[tid] if 0 <= tid < len(m.strtab) else "?"
            if tg != [it]:
                out.append("token %d tag %s emitted as %s (%s)" % (i, it, tg, fv.ty))
        return out

    def solver(self, timeout_ms=120000):
        s = z3.Solver()
        s.set("timeout", timeout_ms)
        return s

    def check(self, *formulas, timeout_ms=120000):
        s = self.solver(timeout_ms)
        for f in formulas:
            s.add(B(f))
        for c in self.m.domain():
            s.add(c)
        t0 = time.time()
        r = s.check()
        dt = time.time() - t0
        return r, (s.model() if r == z3.sat else None), dt, s

    def model_tokens(self, model):
        n = model.eval(self.m.n, model_completion=True).as_long()
        toks = []
        for i in range(n):
            tid = model.eval(self.m.tag[i], model_completion=True).as_long()
            toks.append(self.m.strtab[tid] if 0 <= tid < len(self.m.strtab) else "<UNK>")
        oks = {}
        for ty, vs in self.m.okf.items():
            for i in range(n):
                oks[(ty, i)] = z3.is_true(model.eval(vs[i], model_completion=True))
        return toks, oks


if __name__ == "__main__":
    prog = Program(layout_mod.extract_ast())
    tags, bad = layout_mod.field_tags(prog)
    only = sys.argv[1:]
    for ty in layout_mod.message_types(prog):
        if only and ty not in only:
            continue
        t0 = time.time()
        try:
            q = TokenQueries(prog, ty, 6, tags)
            r, model, dt, _ = q.check(q.L.accepted, q.repr_violation())
            line = "%s repr-violation: %s (build %.1fs solve %.1fs)" % (ty, r, time.time() - t0 - dt, dt)
            if model is not None:
                toks, oks = q.model_tokens(model)
                bad = [(t, i) for (t, i), v in oks.items() if not v and tags.get(t) == toks[i]]
                line += " tokens=%s invalid=%s diag=%s" % (toks, bad, q.diagnose(model))
            print(line, flush=True)
        except Unsupported as e:
            print(ty, "UNSUPPORTED", e)
