"""Token-machine queries (C01/C02/C03/C09) and concretisation of models into MT text."""
import sys
import time

import z3

from interp import *  # noqa
import layout as layout_mod


class TokenQueries:
    def __init__(self, prog, ty, N, tags, unroll=None, cap_scale=None):
        self.prog, self.ty, self.N, self.tags = prog, ty, N, tags
        # adaptive unrolling: the smallest K whose unwinding assertions are all unsatisfiable
        self.unwind_time = 0.0
        K = unroll if unroll is not None else 1
        while True:
            self.L = layout_mod.Layout(prog, ty, N, unroll=K, cap_scale=cap_scale, tags=tags)
            self.m = self.L.m
            if unroll is not None or not self.m.unwind_obl:
                break
            t0 = time.time()
            r, _, _, _ = self.check(Or(*[g for g, _ in self.m.unwind_obl]))
            self.unwind_time += time.time() - t0
            if r == z3.unsat:
                break
            if r != z3.sat:
                raise Unsupported("unwinding assertion undecided at K=%d" % K)
            K += 1
            if K > N + 1:
                raise Unsupported("loop bound exceeds token budget + 1")
        self.K = K

    def emit_tag_alts(self, fv):
        return self.m.emit_tag_alts(fv)

    def repr_violation(self):
        """Formula: the accepted input is NOT reproduced by serialisation at token level
        (some token missing, reordered/duplicated, or emitted under a different tag)."""
        m, L, N = self.m, self.L, self.N
        viol = []
        seen_ge = [False] * (N + 1)      # some already-emitted index is >= i
        rep = [False] * N
        for g, fv in L.fields:
            idx = m.topos(fv.idx)
            # order: the next emitted index must be larger than everything emitted before
            viol.append(And(g, Or(*[And(idx.bits[i], seen_ge[i]) for i in range(N)])))
            viol.append(And(g, Or(idx.bits[N], *[And(idx.bits[i], m.n <= i) for i in range(N)])))
            alts = self.emit_tag_alts(fv)
            for i in range(N):
                same = Or(*[And(ga, m.tag[i] == m.sid(t)) for ga, t in alts])
                viol.append(And(g, idx.bits[i], Not(same)))
                rep[i] = Or(rep[i], And(g, idx.bits[i]))
            acc = False
            new_ge = list(seen_ge)
            for i in reversed(range(N)):
                acc = Or(acc, And(g, idx.bits[i]))
                new_ge[i] = Or(seen_ge[i], acc)
            seen_ge = new_ge
        for i in range(N):
            viol.append(And(i < m.n, Not(rep[i])))
        return Or(*viol)

    def diagnose(self, model):
        m, L, N = self.m, self.L, self.N
        ev = lambda t: z3.is_true(model.eval(B(t), model_completion=True))
        out = []
        n = model.eval(m.n, model_completion=True).as_long()
        act = []
        for k, (g, fv) in enumerate(L.fields):
            if ev(g):
                idx = m.topos(fv.idx)
                i = [j for j in range(N + 1) if ev(idx.bits[j])]
                act.append((k, i[0] if i else -1, fv))
        emitted = [i for _, i, _ in act]
        for i in range(n):
            if i not in emitted:
                out.append("token %d not emitted" % i)
        if emitted != sorted(emitted) or len(set(emitted)) != len(emitted):
            out.append("emission order %s" % emitted)
        for k, i, fv in act:
            tg = [t for ga, t in self.emit_tag_alts(fv) if ev(ga)]
            tid = model.eval(m.tag[i], model_completion=True).as_long() if 0 <= i < N else -1
            it = m.strtab[tid] if 0 <= tid < len(m.strtab) else "?"
            if tg != [it]:
                out.append("token %d tag %s emitted as %s (%s)" % (i, it, tg, fv.ty))
        return out

    # -- layout specification (independent oracle) ---------------------------------------------
    def spec_run(self, G):
        """A[k][p]: after k tokens (k>=1) the position automaton of the spec can be in position p."""
        m, N = self.m, self.N
        npos = len(G.syms)
        pred = {p: [q for q in range(npos) if p in G.follow[q]] for p in range(npos)}
        match = [[Or(*[m.tag[k] == m.sid(t) for t in G.syms[p]["tags"]]) for p in range(npos)] for k in range(N)]
        A = [None] * (N + 1)
        A[0] = None
        for k in range(1, N + 1):
            row = []
            for p in range(npos):
                if k == 1:
                    reach = p in G.first
                else:
                    reach = Or(*[A[k - 1][q] for q in pred[p]])
                row.append(And(match[k - 1][p], reach))
            A[k] = row
        return A, match, pred

    def spec_member(self, G):
        m, N = self.m, self.N
        A, _, _ = self.spec_run(G)
        conds = [And(m.n == 0, G.nullable)]
        for k in range(1, N + 1):
            conds.append(And(m.n == k, Or(*[A[k][p] for p in G.last])))
        return Or(*conds)

    def spec_member_deleted(self, G, gp):
        """the token list is a member of the spec language after inserting one token at (mandatory)
        spec position gp somewhere (i.e. the list is a spec message with that occurrence deleted)."""
        m, N = self.m, self.N
        npos = len(G.syms)
        A, match, pred = self.spec_run(G)
        # E[k]: ghost position gp taken after k real tokens
        E = [None] * (N + 1)
        for k in range(0, N + 1):
            if k == 0:
                E[k] = gp in G.first
            else:
                E[k] = Or(*[A[k][q] for q in pred[gp]])
        # Gd[k][p]: after k real tokens, at position p, ghost already inserted earlier
        Gd = [None] * (N + 1)
        for k in range(1, N + 1):
            row = []
            for p in range(npos):
                srcs = []
                if p in G.follow[gp]:
                    srcs.append(E[k - 1])
                if k >= 2:
                    srcs += [Gd[k - 1][q] for q in pred[p]]
                row.append(And(match[k - 1][p], Or(*srcs)))
            Gd[k] = row
        conds = []
        for k in range(0, N + 1):
            fin = []
            if gp in G.last:
                fin.append(E[k])
            if k >= 1:
                fin += [Gd[k][p] for p in G.last]
            conds.append(And(m.n == k, Or(*fin)))
        return Or(*conds)

    def all_ok(self, except_index=None):
        """every token's content is valid for the field type that owns the token's tag (the parser of a
        different option may or may not accept the same content: left free); `except_index`: that one
        token's content is invalid for every type."""
        m = self.m
        cs = []
        for ty, vs in m.okf.items():
            tg = self.tags.get(ty)
            for i, v in enumerate(vs):
                own = (m.tag[i] == m.sid(tg)) if tg is not None else False
                if except_index is None:
                    cs.append(Or(Not(own), v))
                else:
                    bad = (except_index == i)
                    cs.append(And(Or(Not(own), bad, v), Or(Not(bad), Not(v))))
        return And(*cs) if cs else True

    def canonical(self):
        """letter-less content-based parsing picks the variant whose own tag is the tag that was read
        (the input spells each field canonically)."""
        m = self.m
        cs = []
        for g, ty, idx, var in m.heur_used:
            fv = FieldV(idx, ty, var)
            pidx = m.topos(idx)
            alts = m.emit_tag_alts(fv)
            same = Or(*[And(ga, pidx.bits[i], m.tag[i] == m.sid(t)) for ga, t in alts for i in range(self.N)])
            cs.append(Or(Not(g), same))
        return And(*cs) if cs else True

    def err_is(self, variant, field=None, pred=None):
        """the parse result is Err(ParseError::<variant>{..}) [with payload field satisfying pred(value)]"""
        res = self.L.res
        conds = []
        for g, v in alt_of(res.err):
            if isinstance(v, EnumV) and v.variant == variant:
                if field is None:
                    conds.append(g)
                else:
                    payload = v.payload
                    if isinstance(payload, list) and len(payload) == 1 and isinstance(payload[0], StructV):
                        payload = payload[0].fields
                    if isinstance(payload, dict) and field in payload:
                        conds.append(And(g, pred(payload[field])))
        return And(Not(self.L.accepted), Or(*conds))

    def solver(self, timeout_ms=120000):
        s = z3.Solver()
        s.set("timeout", timeout_ms)
        return s

    def check(self, *formulas, timeout_ms=120000):
        s = self.solver(timeout_ms)
        for f in formulas:
            s.add(B(f))
        for c in self.m.domain():
            s.add(c)
        t0 = time.time()
        r = s.check()
        dt = time.time() - t0
        return r, (s.model() if r == z3.sat else None), dt, s

    def model_tokens(self, model):
        n = model.eval(self.m.n, model_completion=True).as_long()
        toks = []
        for i in range(n):
            tid = model.eval(self.m.tag[i], model_completion=True).as_long()
            toks.append(self.m.strtab[tid] if 0 <= tid < len(self.m.strtab) else "<UNK>")
        oks = {}
        for ty, vs in self.m.okf.items():
            for i in range(n):
                oks[(ty, i)] = z3.is_true(model.eval(vs[i], model_completion=True))
        return toks, oks


if __name__ == "__main__":
    prog = Program(layout_mod.extract_ast())
    tags, bad = layout_mod.field_tags(prog)
    only = sys.argv[1:]
    for ty in layout_mod.message_types(prog):
        if only and ty not in only:
            continue
        t0 = time.time()
        try:
            q = TokenQueries(prog, ty, 6, tags)
            r, model, dt, _ = q.check(q.L.accepted, q.repr_violation())
            line = "%s repr-violation: %s (build %.1fs solve %.1fs)" % (ty, r, time.time() - t0 - dt, dt)
            if model is not None:
                toks, oks = q.model_tokens(model)
                bad = [(t, i) for (t, i), v in oks.items() if not v and tags.get(t) == toks[i]]
                line += " tokens=%s invalid=%s diag=%s" % (toks, bad, q.diagnose(model))
            print(line, flush=True)
        except Unsupported as e:
            print(ty, "UNSUPPORTED", e)
