"""C04/C13: the real validate_network_rules of every message type, executed from source on a symbolic
message instance, compared with the reference rule models in specs/rules/mtNNN.py."""
import importlib
import json
import multiprocessing as mp
import os
import sys
import time
import traceback

HERE = os.path.dirname(os.path.abspath(__file__))
sys.path.insert(0, HERE)
sys.path.insert(0, os.path.join(os.path.dirname(HERE), "lib"))
sys.path.insert(0, os.path.join(os.path.dirname(HERE), "specs"))

import z3  # noqa
import layout as layout_mod  # noqa
from structsym import *  # noqa
import structsym  # noqa


class Inst:
    """Read-only view of a symbolic message instance for the reference rule models."""

    def __init__(self, v, guard=True):
        self.v, self.g = v, guard

    def f(self, name):
        v = self.v
        if isinstance(v, Opt):
            v = v.val
        if not isinstance(v, StructV):
            raise KeyError("%s is not a struct (field %s)" % (type(v).__name__, name))
        return Inst(v.fields[name], self.g)

    def present(self):
        v = self.v
        if isinstance(v, Opt):
            if isinstance(v.val, VecV):
                return And(v.present, Or(*[g for g, _ in v.val.items]))
            return v.present
        if isinstance(v, VecV):
            return Or(*[g for g, _ in v.items])
        return True

    def absent(self):
        return Not(self.present())

    def some(self):
        return Inst(self.v.val, And(self.g, self.v.present)) if isinstance(self.v, Opt) else self

    def items(self):
        v, g0 = self.v, True
        if isinstance(v, Opt):
            g0 = v.present
            v = v.val
        return [(And(g0, g), Inst(x)) for g, x in v.items]

    def count(self):
        return sum([If(g, 1, 0) if is_sym(g) else (1 if g else 0) for g, _ in self.items()]) if self.items() else 0

    def s(self):
        return to_strz(self.v)

    def fp(self):
        return to_fp(self.v)

    def int(self):
        return self.v

    def is_variant(self, name):
        return Or(*[g for g, x in alt_of(self.v.val if isinstance(self.v, Opt) else self.v) if isinstance(x, EnumV) and x.variant == name])

    def variant(self, name):
        for g, x in alt_of(self.v.val if isinstance(self.v, Opt) else self.v):
            if isinstance(x, EnumV) and x.variant == name:
                return Inst(x.payload[0])
        raise KeyError(name)

    def eq(self, lit):
        return self.s() == z3.StringVal(lit)

    def one_of(self, lits):
        return Or(*[self.s() == z3.StringVal(x) for x in lits])


# types whose mode-coherence queries z3's sequence solver does not decide within the cap (stated in evidence)
C13_NOT_DECIDED = {"MT935": "field-23 rules build and slice strings; the two stop-on-first queries return unknown after 120 s"}


def S(x):
    return z3.StringVal(x)


# vectors that need more than K elements before two different members of a set can each be repeated
K_PATHS_ORDER = {"MT101": {"field_23e": 4}, "MT103": {"field_23e": 4}}


def build(prog, ty, K, K_paths=None):
    m = StructMachine(prog, K=K, K_paths=K_paths)
    inst = m.make(ty, ty)
    fn = prog.method(ty, "validate_network_rules")
    out = {False: [], True: [], "sites": [], "stop": None}
    if fn is not None:
        stop = z3.Bool("stop_on_first_error")
        val, _ = m.call_fn(fn[0], [inst, stop], True, self_ty=ty)
        sites = error_codes(val)
        for flag in (False, True):
            out[flag] = [(z3.simplify(z3.substitute(B(g), (stop, z3.BoolVal(flag)))), c) for g, c in sites]
        out["sites"] = error_sites(val)
        out["stop"] = stop
    return m, inst, out


def second_call(m, sites, stop, tag):
    """The error sites of the same symbolic run taken as a separate call of validate_network_rules(false): every HashSet
    iteration order is chosen afresh (std seeds each set's hasher separately)."""
    fresh = [(v, z3.Int("%s@%s" % (v.decl().name(), tag))) for v in m.order_vars]
    m.constraints += [z3.substitute(c, *fresh) for c in m.order_constraints]
    sub1 = [(stop, z3.BoolVal(False))]
    sub2 = sub1 + fresh
    pairs = []
    for g, fields in sites:
        f1 = {k: (v if isinstance(v, str) else z3.substitute(v, *sub1)) for k, v in fields.items()}
        f2 = {k: (v if isinstance(v, str) else z3.substitute(v, *sub2)) for k, v in fields.items()}
        pairs.append((z3.substitute(B(g), *sub1), f1, z3.substitute(B(g), *sub2), f2))
    return pairs


try:
    from known_regions import REGIONS
except ImportError:
    REGIONS = {}


def file_vocabulary(prog, ty):
    lits = set()

    def walk(v):
        if isinstance(v, dict):
            if v.get("k") == "lit" and isinstance(v.get("lit"), dict) and v["lit"].get("k") == "str":
                t = v["lit"]["v"]
                if len(t) <= 8 and " " not in t and "{" not in t:
                    lits.add(t)
            for x in v.values():
                walk(x)
        elif isinstance(v, list):
            for x in v:
                walk(x)
    for f, a in prog.ast.items():
        if f.endswith("/%s.rs" % ty.lower()):
            walk(a)
    return sorted(lits | {"", "ZZZA", "ZZZB", "ZZZC", "ZZZD"})


def reported(codes, code):
    conds = []
    for g, c in codes:
        if isinstance(c, str):
            if c == code:
                conds.append(g)
        else:
            conds.append(And(g, to_strz(c) == z3.StringVal(code)))
    return Or(*conds)


def concretise(m, model):
    """leaf values of the instance in the model (for replay through JSON)"""
    out = {}
    for path, kind, term in m.leaves:
        v = model.eval(term, model_completion=True)
        if kind == "present" or kind == "bool":
            out[path + ("?" if kind == "present" else "")] = z3.is_true(v)
        elif kind in ("len", "int"):
            out[path + (".len" if kind == "len" else "")] = v.as_long()
        elif kind == "str":
            out[path] = v.as_string()
        elif kind == "f64":
            try:
                out[path] = float(eval(str(v).replace("*(2**", "*(2.0**"))) if not z3.is_fp_value(v) else float(v.as_string()) if hasattr(v, "as_string") else str(v)
            except Exception:
                out[path] = str(v)
        elif kind.startswith("variant:"):
            names = kind[len("variant:"):].split(",")
            out[path + ".variant"] = names[v.as_long()]
    return out


def check_type(prog, ty, K, timeout_ms=300000):
    res = []
    t0 = time.time()
    try:
        m, inst, codes = build(prog, ty, K)
    except Unsupported as e:
        return [{"type": ty, "query": "encode-validate_network_rules", "verdict": "not-encoded", "detail": str(e)}]
    build_s = time.time() - t0
    full, first = codes[False], codes[True]
    all_codes = sorted(set(c for _, c in full if isinstance(c, str)))
    try:
        mod = importlib.import_module("rules." + ty.lower())
    except ImportError:
        mod = None
    I = Inst(inst)
    exp = {}
    if mod is not None:
        try:
            exp = mod.expected(I, z3, m)
        except Exception:
            return [{"type": ty, "query": "reference-model", "verdict": "error", "detail": traceback.format_exc()[-1200:]}]
    elif all_codes:
        return [{"type": ty, "query": "reference-model", "verdict": "not-encoded", "detail": "no reference rule model specs/rules/%s.py although the type reports %s" % (ty.lower(), all_codes)}]

    def judge(extra, model, out):
        """does the real run on the concretised message show the violation?"""
        if not out.get("ok"):
            return None, "witness not constructible: %s" % out.get("de_error", out)
        if extra and extra.get("code"):
            code = extra["code"]
            want = z3.is_true(model.eval(B(exp[code]), model_completion=True))
            got = code in out["codes"]
            if want != got:
                return ("rule %s %s violated by the message but the code is %s: real codes %s"
                        % (code, "is" if want else "is not", "reported" if got else "not reported", out["codes"])), None
            return None, None
        if extra and extra.get("mode") == "c13":
            a, f = out["codes"], out["first"]
            if bool(a) != bool(f) or f != a[:len(f)]:
                return "stop-on-first %s is not a non-empty-iff prefix of %s" % (f, a), None
            if out.get("first_unstable"):
                return "stop-on-first is not always a prefix of the full list (order varies between calls): %s" % out["first_unstable"], None
            if out.get("again") != a or not out.get("unchanged", True):
                return "re-validation differs: %s vs %s" % (out.get("again"), a), None
            if out.get("again_detail"):
                return "re-validation returns different errors (same codes): %s" % out["again_detail"], None
            return None, None
        if extra and extra.get("mode") == "undocumented":
            bad = [c for c in out["codes"] if c not in exp]
            return ("undocumented codes %s" % bad if bad else None), None
        return None, None

    def solve(name, formula, extra=None, max_models=3):
        from common import replay_batch
        s = z3.Solver()
        s.set("timeout", timeout_ms)
        s.add(*m.constraints)
        if mod is not None and hasattr(mod, "assumptions"):
            s.add(*[B(a) for a in mod.assumptions(I, z3, m)])
        s.add(B(formula))
        t1 = time.time()
        rec = {"type": ty, "query": name, "K": K, "build_s": round(build_s, 2), "models_tried": []}
        tried = 0
        while True:
            r = s.check()
            if r == z3.unknown and tried == 0 and "vocab" not in rec:
                # the string solver gave up on arbitrary strings: decide the query with every string leaf ranging over the
                # literals of the type's own source file plus four fresh values (a stated, smaller bound)
                vocab = file_vocabulary(prog, ty)
                rec["vocab"] = len(vocab)
                s = z3.Solver()
                s.set("timeout", timeout_ms)
                s.add(*m.constraints)
                if mod is not None and hasattr(mod, "assumptions"):
                    s.add(*[B(a) for a in mod.assumptions(I, z3, m)])
                s.add(B(formula))
                for path, kind, term in m.leaves:
                    if kind == "str":
                        s.add(z3.Or(*[term == z3.StringVal(v) for v in vocab]))
                r = s.check()
                if r == z3.unsat:
                    rec["verdict"] = "unsat-bounded"
                    rec["bound"] = "string components restricted to %d values (literals of the source file + 4 fresh); arbitrary strings: solver unknown" % len(vocab)
                    break
            if r != z3.sat:
                rec["verdict"] = str(r) if tried == 0 or r != z3.unsat else "unsat-after-%d-nonreproducing-models" % tried
                break
            model = s.model()
            tried += 1
            try:
                _, js = structsym.to_json(prog, model, inst)
            except Unsupported as e:
                rec["verdict"] = "sat-not-replayable"
                rec["detail"] = str(e)
                break
            out = replay_batch([{"op": "validate_json", "type": ty, "json": js}], "dev")[0]
            why, problem = judge(extra, model, out)
            rec["models_tried"].append({"json": js, "real": {k: out.get(k) for k in ("ok", "codes", "first", "de_error")}, "violation": why})
            if why:
                rec["verdict"] = "sat"
                rec["witness"] = {"type": ty, "json": js, "shape": concretise(m, model), "extra": extra, "why": why, "real": out}
                break
            if tried >= max_models:
                rec["verdict"] = "sat-not-reproduced"
                rec["detail"] = problem or "real run does not show the violation"
                break
            # block the leaf assignment of this model and retry
            blk = []
            for path, kind, term in m.leaves:
                if kind in ("present", "bool", "len", "int") or kind.startswith("variant:"):
                    blk.append(term != model.eval(term, model_completion=True))
            if not blk:
                rec["verdict"] = "sat-not-reproduced"
                break
            s.add(z3.Or(*blk))
        rec["time_s"] = round(time.time() - t1, 2)
        rec["models_tried"] = rec["models_tried"][:2]
        res.append(rec)
        return rec

    # C04: code reported iff rule violated, for every documented code; nothing undocumented
    for code in sorted(set(all_codes) | set(exp)):
        e = exp.get(code)
        if e is None:
            res.append({"type": ty, "query": "code-%s-documented" % code, "verdict": "not-encoded",
                        "detail": "code %s is reported by the implementation but the reference model has no rule for it" % code})
            continue
        region_fn = REGIONS.get((ty, code))
        if region_fn is None:
            solve("code-%s-reported-iff-rule-violated" % code, reported(full, code) != B(e), extra={"code": code})
        else:
            # a recorded deviation: asked inside the region where it is known to live (re-established, KNOWN-FINDING) and
            # outside it (anything there is a new violation)
            region = B(region_fn(I, z3))
            solve("code-%s-reported-iff-rule-violated(inside the recorded deviation's region)" % code,
                  And(reported(full, code) != B(e), region), extra={"code": code, "known_region": True})
            solve("code-%s-reported-iff-rule-violated(outside the recorded deviation's region)" % code,
                  And(reported(full, code) != B(e), Not(region)), extra={"code": code})
    sym_codes = [g for g, c in full if not isinstance(c, str)]
    if sym_codes:
        solve("no-undocumented-code", extra={"mode": "undocumented"}, formula=Or(*[And(g, Not(Or(*[to_strz(c) == z3.StringVal(k) for k in exp]))) for g, c in full if not isinstance(c, str)]))
    if ty in C13_NOT_DECIDED:
        res.append({"type": ty, "query": "stop-on-first (both queries)", "verdict": "skipped", "detail": C13_NOT_DECIDED[ty], "time_s": 0})
        return res
    # C13: stop-on-first-error is a non-empty prefix exactly when the full list is non-empty
    any_full = Or(*[g for g, _ in full])
    any_first = Or(*[g for g, _ in first])
    solve("stop-on-first-nonempty-iff-full-nonempty", any_full != any_first, extra={"mode": "c13"})
    # prefix: the r-th error reported in stop-on-first mode is the r-th error of the full run (first R ranks;
    # error codes compared as small integers)
    ids = {}
    symbolic_code = any(not isinstance(c, str) for _, c in full)

    def nth(lst, r):
        rank = 0
        pres, code = False, z3.IntVal(-1)
        for g, c in lst:
            if not is_sym(g) and not g:
                continue
            hit = And(g, rank == r) if is_sym(rank) else (g if rank == r else False)
            pres = Or(pres, hit)
            code = z3.If(B(hit), z3.IntVal(ids.setdefault(c, len(ids))), code)
            rank = rank + (If(g, 1, 0) if is_sym(g) else (1 if g else 0))
        return pres, code
    if symbolic_code:
        res.append({"type": ty, "query": "stop-on-first-is-prefix-of-full", "verdict": "not-encoded", "detail": "error code is a computed string"})
    elif full:
        R = 3
        bad = []
        for r in range(R):
            p1, c1 = nth(first, r)
            p2, c2 = nth(full, r)
            bad.append(And(p1, Or(Not(p2), c1 != c2)))
        solve("stop-on-first-is-prefix-of-full(first %d positions)" % R, Or(*bad), extra={"mode": "c13"})
    if m.set_iterations:
        # some HashSet is iterated where the order can matter: a second call (its own iteration orders) must construct the
        # same error, with the same evaluable string fields, at every error site. (Site-wise equality implies equal lists.)
        res.extend(order_query(prog, ty, K, timeout_ms, mod))
    return res


def order_query(prog, ty, K, timeout_ms, mod):
    from common import replay_batch
    t0 = time.time()
    kp = K_PATHS_ORDER.get(ty)
    m, inst, out = build(prog, ty, K, K_paths=kp)
    pairs = second_call(m, out["sites"], out["stop"], "again")
    bad = []
    for g1, f1, g2, f2 in pairs:
        diff = [f1[k] != f2[k] for k in f1 if not (isinstance(f1[k], str) and isinstance(f2[k], str))]
        bad.append(Or(g1 != g2, And(g1, Or(*diff)) if diff else False))
    name = "re-validation-constructs-the-same-errors(%d sites; %d hash-order choices%s)" % (
        len(pairs), len(m.order_vars), "; vector bounds %s" % kp if kp else "")
    rec = {"type": ty, "query": name, "K": K, "build_s": round(time.time() - t0, 2)}
    s = z3.Solver()
    s.set("timeout", timeout_ms)
    s.add(*m.constraints)
    I = Inst(inst)
    if mod is not None and hasattr(mod, "assumptions"):
        s.add(*[B(a) for a in mod.assumptions(I, z3, m)])
    s.add(B(Or(*bad)))
    t1 = time.time()
    tried = 0
    while True:
        r = s.check()
        if r != z3.sat:
            rec["verdict"] = str(r) if tried == 0 or r != z3.unsat else "unsat-after-%d-nonreproducing-models" % tried
            break
        model = s.model()
        tried += 1
        _, js = structsym.to_json(prog, model, inst)
        o = replay_batch([{"op": "validate_json", "type": ty, "json": js}], "dev")[0]
        why = None
        if o.get("ok"):
            if o.get("again") != o.get("codes"):
                why = "re-validation differs: %s vs %s" % (o.get("again"), o.get("codes"))
            elif o.get("again_detail"):
                why = "re-validation returns different errors for the same message (same codes): %s" % json.dumps(o["again_detail"])[:600]
            elif o.get("first_unstable"):
                why = "stop-on-first is not always a prefix of the full list: %s" % o["first_unstable"]
        if why:
            rec["verdict"] = "sat"
            rec["witness"] = {"type": ty, "json": js, "shape": concretise(m, model), "extra": {"mode": "c13"}, "why": why,
                              "real": {k: o.get(k) for k in ("codes", "again", "again_detail")}}
            break
        if tried >= 4:
            rec["verdict"] = "sat-not-reproduced"
            rec["detail"] = "48 repeated real validations of the model's message all returned identical errors"
            break
        blk = [term != model.eval(term, model_completion=True) for path, kind, term in m.leaves
               if kind in ("present", "bool", "len", "int") or kind.startswith("variant:")]
        s.add(z3.Or(*blk) if blk else False)
    rec["time_s"] = round(time.time() - t1, 2)
    return [rec]


# per-type bound overrides (stated in evidence): MT935's field-23 rules rebuild strings; K = 2 is not decided for T26
K_FOR = {"MT935": 1}


# the order queries of these types are not answered at K = 3 within the time limit: their bound stays K = 2 in the thorough tier
K_CAP = {"MT101": 2, "MT104": 2}


def _worker(args):
    ty, K = args
    K = K_FOR.get(ty, K)
    K = min(K, K_CAP.get(ty, K))
    try:
        prog = Program(layout_mod.extract_ast())
        return check_type(prog, ty, K)
    except Exception:
        return [{"type": ty, "query": "rules", "verdict": "error", "detail": traceback.format_exc()[-1500:]}]


def run_all(K=2, jobs=12, only=None):
    prog = Program(layout_mod.extract_ast())
    types = [t for t in layout_mod.message_types(prog) if not only or t in only]
    with mp.Pool(min(jobs, len(types))) as pool:
        outs = pool.map(_worker, [(t, K) for t in types], chunksize=1)
    return [r for o in outs for r in o]


if __name__ == "__main__":
    only = sys.argv[2:]
    for r in run_all(K=int(sys.argv[1]), only=only):
        line = "%-6s %-60s %-10s %5.2fs" % (r["type"], r["query"][:60], r["verdict"], r.get("time_s", 0))
        if r.get("witness"):
            sh = {k: v for k, v in r["witness"]["shape"].items() if v not in (False, 0, "", None)}
            line += "  " + json.dumps(sh)[:700]
        elif r["verdict"] not in ("unsat",):
            line += "  " + str(r.get("detail", ""))[:400]
        print(line)
