"""Struct-level symbolic execution: a symbolic *instance* of a message struct (every Option presence,
Vec length <= K, String / f64 / enum-variant component symbolic) on which the real
`validate_network_rules`, `has_reject_codes`, ... are executed from source (syn AST) into z3 terms
(strings: z3 Seq theory; f64: z3 Float64)."""
import os
import sys

import z3

HERE = os.path.dirname(os.path.abspath(__file__))
sys.path.insert(0, HERE)
from interp import *  # noqa
import interp


class DateV:
    """symbolic chrono::NaiveDate (year, month, day as z3 Ints; validity is a side constraint or an Option)"""
    __slots__ = ("y", "m", "d")

    def __init__(self, y, m, d):
        self.y, self.m, self.d = y, m, d


class TimeV:
    __slots__ = ("h", "mi", "s")

    def __init__(self, h, mi, s=0):
        self.h, self.mi, self.s = h, mi, s


class ChronoStr:
    """the text chrono's `format(fmt)` produces for a date/time — kept symbolic so that the library pair
    format / parse_from_str (same format string) is recognised as an inverse pair without string solving"""
    __slots__ = ("v", "fmt", "machine")

    def __init__(self, v, fmt, machine):
        self.v, self.fmt, self.machine = v, fmt, machine

    def z(self):
        return self.machine.chrono_text(self.v, self.fmt)


_orig_to_strz = interp.to_strz


def _to_strz_ext(x):
    if isinstance(x, ChronoStr):
        return x.z()
    return _orig_to_strz(x)


interp.to_strz = _to_strz_ext
to_strz = _to_strz_ext


def char_boundary(s, i):
    """byte mode (one z3 character = one byte of the UTF-8 text): index i is a character boundary of s"""
    i = z3.IntVal(i) if isinstance(i, int) else i
    c = z3.StrToCode(z3.SubString(s, i, 1))
    # (an all-ASCII string has a boundary everywhere: logically redundant, but it lets the solver close the obligations of a
    # parser that starts with an is_ascii() guard without reasoning about single bytes)
    ascii_star = z3.Star(z3.Range(chr(0), chr(0x7f)))
    root = s
    while z3.is_app(root) and root.decl().kind() == z3.Z3_OP_SEQ_EXTRACT:
        root = root.arg(0)
    hints = [z3.InRe(s, ascii_star)] + ([z3.InRe(root, ascii_star)] if root is not s else [])
    return z3.Or(i <= 0, i >= z3.Length(s), z3.Not(z3.And(c >= 0x80, c <= 0xBF)), *hints)


def utf8_regex():
    """the byte strings that are valid UTF-8 (1- to 3-byte characters), one z3 character per byte"""
    R = lambda a, b: z3.Range(chr(a), chr(b))
    cont = R(0x80, 0xBF)
    one = z3.Union(R(0x20, 0x7E), z3.Re("\n"))
    two = z3.Concat(R(0xC2, 0xDF), cont)
    three = z3.Union(z3.Concat(z3.Re(chr(0xE0)), R(0xA0, 0xBF), cont), z3.Concat(R(0xE1, 0xEC), cont, cont),
                     z3.Concat(z3.Re(chr(0xED)), R(0x80, 0x9F), cont), z3.Concat(R(0xEE, 0xEF), cont, cont))
    return z3.Star(z3.Union(one, two, three))


def days_in_month(y, m):
    leap = z3.Or(z3.And(y % 4 == 0, y % 100 != 0), y % 400 == 0)
    return z3.If(z3.Or(m == 1, m == 3, m == 5, m == 7, m == 8, m == 10, m == 12), 31,
                 z3.If(z3.Or(m == 4, m == 6, m == 9, m == 11), 30, z3.If(leap, 29, 28)))


def valid_date(y, m, d):
    return z3.And(m >= 1, m <= 12, d >= 1, d <= days_in_month(y, m), y >= -262143, y <= 262142)


def digit_char(d):
    return z3.StrFromCode(48 + d)


def pad(v, width, bounded=False):
    """decimal rendering of an Int in [0, 10^width) zero padded to `width` (like {:0width}), built from digit
    characters (no int<->string conversion terms: those make z3's sequence solver give up); values with more
    digits than `width` are rendered in full like Rust does"""
    if width <= 4:
        digs = []
        for k in reversed(range(width)):
            digs.append(digit_char((v / (10 ** k)) % 10))
        small = z3.Concat(*digs) if len(digs) > 1 else digs[0]
        if bounded:
            return small
        return z3.If(z3.And(v >= 0, v < 10 ** width), small, z3.IntToStr(v))
    sv = z3.IntToStr(v)
    out = sv
    for w in range(1, width):
        out = z3.If(z3.Length(sv) == w, z3.Concat(z3.StringVal("0" * (width - w)), sv), out)
    return out


def const_len_substring(sz):
    """(base, offset, L) if sz is str.substr(base, off, L) with numeral L <= 4"""
    try:
        if sz.decl().kind() == z3.Z3_OP_SEQ_EXTRACT and z3.is_int_value(sz.arg(2)) and sz.arg(2).as_long() <= 4:
            return sz.arg(0), sz.arg(1), sz.arg(2).as_long()
    except Exception:
        pass
    return None


class StructMachine(Machine):
    def __init__(self, prog, K=2, K_paths=None):
        super().__init__(prog, 1)
        self.K = K
        self.K_paths = K_paths or {}     # field name -> vector bound overriding K
        self.order_vars = []             # iteration-order choices of HashSets (fresh per iteration)
        self.order_constraints = []
        self.set_iterations = 0
        self.counter = 0
        self.constraints = []
        self.leaves = []   # (path, kind, term) for model read-back
        self.deser_inputs = []
        self.CASE_LEN = 8
        self.bounds_used = set()
        self.type_tags = {}

    # -- symbolic instances --------------------------------------------------------------------
    def fresh_name(self, path):
        self.counter += 1
        return "%s#%d" % (path, self.counter)

    def make(self, ty, path):
        ty = ty.replace(" ", "")
        ty = self.prog.resolve_type(ty)
        if ty.startswith("Option<") and ty.endswith(">"):
            p = z3.Bool(self.fresh_name(path + "?"))
            self.leaves.append((path, "present", p))
            return Opt(p, self.make(ty[7:-1], path))
        if ty.startswith("Vec<") and ty.endswith(">"):
            n = z3.Int(self.fresh_name(path + ".len"))
            K = self.K_paths.get(path.rsplit(".", 1)[-1], self.K)
            self.constraints += [n >= 0, n <= K]
            self.leaves.append((path, "len", n))
            return VecV(tuple((n > k, self.make(ty[4:-1], "%s[%d]" % (path, k))) for k in range(K)), dense=True)
        if ty.startswith("Box<") and ty.endswith(">"):
            return self.make(ty[4:-1], path)
        if ty in ("String", "&str", "&'staticstr"):
            s = z3.String(self.fresh_name(path))
            self.leaves.append((path, "str", s))
            return StrZ(s)
        if ty == "f64":
            f = z3.FP(self.fresh_name(path), z3.Float64())
            # amounts that a parsed message can hold are finite and non-negative
            self.constraints += [z3.Not(z3.fpIsNaN(f)), z3.Not(z3.fpIsInf(f)), z3.fpGEQ(f, z3.FPVal(0.0, z3.Float64())),
                                 z3.fpLEQ(f, z3.FPVal(1e15, z3.Float64()))]
            self.leaves.append((path, "f64", f))
            return FPV(f)
        if ty in ("u8", "u16", "u32", "u64", "usize", "i32", "i64"):
            v = z3.Int(self.fresh_name(path))
            self.constraints += [v >= 0, v <= 99999]
            self.leaves.append((path, "int", v))
            return v
        if ty == "bool":
            v = z3.Bool(self.fresh_name(path))
            self.leaves.append((path, "bool", v))
            return v
        if ty == "char":
            s = z3.String(self.fresh_name(path))
            self.constraints.append(z3.Length(s) == 1)
            self.leaves.append((path, "str", s))
            return StrZ(s)
        if ty in ("NaiveDate", "chrono::NaiveDate"):
            y, mo, d = (z3.Int(self.fresh_name(path + "." + k)) for k in ("year", "month", "day"))
            # dates a parsed message can hold: the 50-year pivot window
            self.constraints += [y >= 1950, y <= 2049, valid_date(y, mo, d)]
            for k, t in (("year", y), ("month", mo), ("day", d)):
                self.leaves.append((path + "." + k, "int", t))
            return DateV(y, mo, d)
        if ty in ("NaiveTime", "chrono::NaiveTime"):
            h, mi = z3.Int(self.fresh_name(path + ".hour")), z3.Int(self.fresh_name(path + ".minute"))
            self.constraints += [h >= 0, h <= 23, mi >= 0, mi <= 59]
            self.leaves.append((path + ".hour", "int", h))
            self.leaves.append((path + ".minute", "int", mi))
            return TimeV(h, mi, 0)
        if ty in ("NaiveDateTime",):
            return Opaque(ty)
        if ty.startswith("HashMap<") or ty.startswith("std::collections::HashMap<"):
            return VecV(())
        if ty in self.prog.structs:
            sd = self.prog.structs[ty]
            return StructV(ty, {f["name"]: self.make(f["ty"], path + "." + f["name"]) for f in sd["fields"]})
        if ty in self.prog.enums:
            ed = self.prog.enums[ty]
            sel = z3.Int(self.fresh_name(path + ".variant"))
            nv = len(ed["variants"])
            self.constraints += [sel >= 0, sel < nv]
            self.leaves.append((path, "variant:" + ",".join(v["name"] for v in ed["variants"]), sel))
            alts = []
            for k, v in enumerate(ed["variants"]):
                payload = [self.make(f["ty"], "%s::%s" % (path, v["name"])) for f in v["fields"]]
                alts.append((sel == k, EnumV(ty, v["name"], payload)))
            return mk_alt(alts)
        raise Unsupported("cannot build a symbolic instance of type %s (%s)" % (ty, path))

    # -- expression extensions ---------------------------------------------------------------------
    def ev_lit(self, e, fr, guard):
        l = e["lit"]
        if l["k"] == "float":
            return FPV(z3.FPVal(float(l["v"]), z3.Float64()))
        return super().ev_lit(e, fr, guard)

    def binop(self, e, op, a, b, fr, guard):
        if isinstance(a, FPV) or isinstance(b, FPV):
            fa, fb = to_fp(a), to_fp(b)
            rm = z3.RNE()
            if op == "+":
                return FPV(z3.fpAdd(rm, fa, fb))
            if op == "-":
                return FPV(z3.fpSub(rm, fa, fb))
            if op == "*":
                return FPV(z3.fpMul(rm, fa, fb))
            if op == "/":
                return FPV(z3.fpDiv(rm, fa, fb))
            if op == "<":
                return z3.fpLT(fa, fb)
            if op == "<=":
                return z3.fpLEQ(fa, fb)
            if op == ">":
                return z3.fpGT(fa, fb)
            if op == ">=":
                return z3.fpGEQ(fa, fb)
            if op == "==":
                return z3.fpEQ(fa, fb)
            if op == "!=":
                return z3.Not(z3.fpEQ(fa, fb))
            if op in ("+=", "-="):
                nv = FPV(z3.fpAdd(rm, fa, fb) if op == "+=" else z3.fpSub(rm, fa, fb))
                self.assign(e["left"], nv, fr, guard)
                return UNIT
            raise Unsupported("float operator %s" % op)
        return super().binop(e, op, a, b, fr, guard)

    def equals(self, a, b):
        if isinstance(a, Opt) and isinstance(b, Opt):
            if a.val is None or b.val is None:
                return And(Not(a.present), Not(b.present))
            return Or(And(Not(a.present), Not(b.present)), And(a.present, b.present, self.equals(a.val, b.val)))
        return super().equals(a, b)

    def ev_if(self, e, fr, guard):
        cond = e["cond"]
        # let-chains:  a && let Some(x) = y && b
        parts = []

        def flat(c):
            if c["k"] == "binary" and c["op"] == "&&":
                flat(c["left"])
                flat(c["right"])
            else:
                parts.append(c)
        flat(cond)
        if len(parts) > 1 and any(p["k"] == "letcond" for p in parts):
            els = e.get("else")
            then_fn = lambda f, g: self.exec_block(e["then"], f, g)
            else_fn = (lambda f, g: self.eval(els, f, g)) if els is not None else (lambda f, g: UNIT)

            def chain(i, f, g):
                if i == len(parts):
                    return then_fn(f, g)
                p = parts[i]
                if p["k"] == "letcond":
                    sv = self.eval(p["expr"], f, g)
                    return self.if_let(p["pat"], sv, f, g, lambda f2, g2: chain(i + 1, f2, g2), else_fn)
                c = self.as_bool(self.eval(p, f, g))
                return self.branch(c, f, g, lambda f2, g2: chain(i + 1, f2, g2), else_fn)
            return chain(0, fr, guard)
        return super().ev_if(e, fr, guard)

    def iter_value(self, it):
        return self.set_order(it) if isinstance(it, SetZ) else it

    def set_order(self, sz):
        """The sequence a HashSet is iterated in: its distinct members in an ARBITRARY order (std's RandomState is seeded per
        set), i.e. a fresh symbolic permutation for every iteration."""
        items = sz.items
        n = len(items)
        self.set_iterations += 1
        pres = []
        for k, (g, v) in enumerate(items):
            dup = Or(*[And(g2, to_strz(v2) == to_strz(v)) for g2, v2 in items[:k]])
            pres.append(And(g, Not(dup)))
        canon = VecV(tuple((p, v) for p, (_, v) in zip(pres, items)))
        if n <= 1:
            return canon
        keys = [z3.Int(self.fresh_name("hs_order")) for _ in range(n)]
        cs = [z3.Distinct(*keys)] + [z3.And(k >= 0, k < n) for k in keys]
        self.constraints += cs
        self.order_constraints += cs
        self.order_vars += keys
        out = []
        for j in range(n):
            val, present = None, False
            for i in range(n):
                before = sum([If(And(pres[k], keys[k] < keys[i]), 1, 0) for k in range(n) if k != i])
                here = And(pres[i], before == j)
                val = items[i][1] if val is None else merge(here, items[i][1], val)
                present = Or(present, here)
            out.append((present, val))
        return VecV(tuple(out), canonical=canon)

    def slice_str(self, base, idx, fr, guard, oob_ok):
        st = self.eval(idx["start"], fr, guard) if idx.get("start") is not None else 0
        if isinstance(base, str) and isinstance(st, int) and all(ord(c) < 128 for c in base):
            en = self.eval(idx["end"], fr, guard) if idx.get("end") is not None else len(base)
            if isinstance(en, int):
                if idx.get("closed"):
                    en = en + 1
                if 0 <= st <= en <= len(base):
                    return base[st:en]
                if oob_ok:
                    return "\x00out-of-range\x00"
                raise Unsupported("slice [%d..%d] out of range of a %d-byte string (the real code panics here)" % (st, en, len(base)))
        s = to_strz(base)
        mk = LineZ if isinstance(base, LineZ) or (isinstance(base, str) and "\n" not in base) else StrZ
        if isinstance(base, TextV):
            mk = StrZ
        if idx.get("end") is not None:
            en = self.eval(idx["end"], fr, guard)
            if idx.get("closed"):
                en = en + 1
            self.oblige(fr, guard, z3.And(0 <= z3.IntVal(st) if isinstance(st, int) else 0 <= st, st <= en, en <= z3.Length(s)),
                        "slice [a..b] out of range (line %s)" % idx.get("line", "?"))
            if getattr(self, "byte_mode", False):
                self.oblige(fr, guard, z3.And(char_boundary(s, st), char_boundary(s, en)), "slice [a..b] not on a character boundary")
            return mk(z3.SubString(s, st, en - st))
        self.oblige(fr, guard, z3.And(0 <= z3.IntVal(st) if isinstance(st, int) else 0 <= st, st <= z3.Length(s)),
                    "slice [a..] out of range (line %s)" % idx.get("line", "?"))
        if getattr(self, "byte_mode", False):
            self.oblige(fr, guard, char_boundary(s, st), "slice [a..] not on a character boundary")
        return mk(z3.SubString(s, st, z3.Length(s) - st))

    def ev_index(self, e, fr, guard):
        base = self.eval(e["base"], fr, guard)
        idx = e["index"]
        if isinstance(base, ChronoStr):
            base = StrZ(base.z())
        if isinstance(base, Alt) and idx["k"] == "range" and all(isinstance(v, (str, StrZ)) for _, v in base.alts):
            # one slice per alternative; a slice that is out of range for an alternative belongs to a path on which that
            # alternative is not the value (the guards exclude it), or to a panic of the real code (C07's subject)
            return mk_alt([(g, self.slice_str(v, idx, fr, guard, True)) for g, v in base.alts])
        if isinstance(base, (StrZ, str)) and idx["k"] == "range":
            return self.slice_str(base, idx, fr, guard, False)
        if isinstance(base, VecV):
            i = self.eval(idx, fr, guard)
            return self.vec_index(base, i)
        return super().ev_index(e, fr, guard)

    def vec_index(self, vec, i):
        """i-th *present* element"""
        rank = 0
        cands = []
        for g, v in vec.items:
            cands.append((And(g, rank == i) if is_sym(rank) or is_sym(i) else (g if rank == i else False), v))
            rank = rank + If(g, 1, 0) if is_sym(g) else (rank + (1 if g else 0))
        cands = [(c, v) for c, v in cands if is_sym(c) or c]
        if not cands:
            return Opaque("index-out-of-range")
        out = cands[-1][1]
        for c, v in reversed(cands[:-1]):
            out = merge(B(c), v, out)
        return out

    def ev_range(self, e, fr, guard):
        st = self.eval(e["start"], fr, guard) if e.get("start") is not None else 0
        en = self.eval(e["end"], fr, guard)
        if e.get("closed"):
            en = en + 1
        if not isinstance(st, int):
            raise Unsupported("range with symbolic start")
        if isinstance(en, int):
            return VecV(tuple((True, i) for i in range(st, en)))
        # symbolic end: up to the largest length that can occur
        return VecV(tuple((i < en, i) for i in range(st, st + 3 * self.K + 2)))

    def ev_macro(self, e, fr, guard):
        name = e["name"].split("::")[-1]
        if name == "matches":
            raise Unsupported("matches!")
        if name == "format":
            args = e.get("args") or []
            if args and args[0]["k"] == "lit" and args[0]["lit"].get("k") == "str":
                vals = [self.eval(a, fr, guard) for a in args[1:]]
                r0 = Machine.format(self, args[0]["lit"]["v"], vals, fr)     # concrete / finite-alternative strings
                if not isinstance(r0, Opaque):
                    return r0
                r = self.format_z(args[0]["lit"]["v"], vals, fr)
                if r is not None:
                    return r
            return Opaque("format")
        return super().ev_macro(e, fr, guard)

    def format_z(self, tmpl, vals, fr):
        """format! with {} / {:02} / {:0N} / {:.N} placeholders over strings, ints, floats -> z3 string (or None)"""
        import re as _re2
        pieces, vi = [], 0
        for kind, p in interp.fmt_pieces(tmpl):
            if kind == "arg":
                inner = p
                name, _, spec = inner.partition(":")
                if name == "":
                    if vi >= len(vals):
                        return None
                    v = vals[vi]
                    vi += 1
                elif name in fr.vars:
                    v = fr.vars[name]
                else:
                    return None
                if isinstance(v, FieldEmit):
                    return None
                if isinstance(v, FPV):
                    m = _re2.fullmatch(r"\.(\d+)", spec)
                    if not m:
                        return None
                    pieces.append(self.amount_text(v.f, int(m.group(1))))
                    continue
                if is_intterm(v) or (isinstance(v, int) and not isinstance(v, bool)):
                    iv = v if is_sym(v) else z3.IntVal(v)
                    m = _re2.fullmatch(r"0(\d+)", spec)
                    if spec == "":
                        pieces.append(z3.IntToStr(iv))
                    elif m:
                        pieces.append(pad(iv, int(m.group(1))))
                    else:
                        return None
                    continue
                mpad = _re2.fullmatch(r"(.)?([<>])(\d+)", spec) if spec else None
                if mpad and not isinstance(v, (TextV,)):
                    fill = mpad.group(1) or " "
                    width = int(mpad.group(3))
                    try:
                        sv = to_strz(v)
                    except Unsupported:
                        return None
                    padded = sv
                    for missing in range(1, width + 1):
                        fs = z3.StringVal(fill * missing)
                        padded = z3.If(z3.Length(sv) == width - missing, z3.Concat(fs, sv) if mpad.group(2) == ">" else z3.Concat(sv, fs), padded)
                    pieces.append(LineZ(padded) if isinstance(v, (LineZ, str)) else padded)
                    continue
                if spec != "":
                    return None
                if isinstance(v, (StructV, EnumV)) or (isinstance(v, Alt) and any(isinstance(x, (StructV, EnumV)) for _, x in v.alts)):
                    r = self.display_of(v, fr)
                    if r is None:
                        return None
                    pieces.append(to_strz(r))
                    continue
                if isinstance(v, (TextV, LineZ)):
                    pieces.append(v)
                    continue
                try:
                    pieces.append(to_strz(v))
                except Unsupported:
                    return None
            else:
                if p:
                    pieces.append(z3.StringVal(p))
        if not pieces:
            return ""
        if any(isinstance(p, (TextV, LineZ)) for p in pieces):
            acc = pieces[0] if not z3.is_expr(pieces[0]) else (structsym_lit(pieces[0]))
            for p in pieces[1:]:
                acc = text_concat(acc, p if not z3.is_expr(p) else structsym_lit(p))
            return acc
        return StrZ(z3.Concat(*pieces) if len(pieces) > 1 else pieces[0])

    def chrono_format(self, v, fmt):
        return ChronoStr(v, fmt, self)

    def chrono_text(self, v, fmt):
        import re as _re2
        out = []
        for tok in _re2.findall(r"%.|[^%]+", fmt):
            if tok == "%y":
                out.append(pad(v.y % 100, 2, True))
            elif tok == "%Y":
                out.append(pad(v.y, 4, True))
            elif tok == "%m":
                out.append(pad(v.m, 2, True))
            elif tok == "%d":
                out.append(pad(v.d, 2, True))
            elif tok == "%H":
                out.append(pad(v.h, 2, True))
            elif tok == "%M":
                out.append(pad(v.mi, 2, True))
            elif tok == "%S":
                out.append(pad(v.s if is_sym(v.s) else z3.IntVal(v.s), 2, True))
            elif tok.startswith("%"):
                raise Unsupported("chrono format item %s" % tok)
            else:
                out.append(z3.StringVal(tok))
        return z3.Concat(*out) if len(out) > 1 else out[0]

    def display_of(self, v, fr):
        """`{}` of a value with a user Display impl: run its fmt and take what it writes"""
        return None

    def amount_text(self, f, decimals):
        """text of an f64 rendered with a fixed number of decimals — uninterpreted (the decimal pipeline is C06's subject)"""
        if not hasattr(self, "_amt"):
            self._amt = z3.Function("fmt_f64", z3.Float64(), z3.IntSort(), z3.StringSort())
        return self._amt(f, z3.IntVal(decimals))

    # -- methods on the new values -------------------------------------------------------------------
    def builtin_method(self, recv, meth, args, e, fr, guard):
        if isinstance(recv, TextV) and meth == "lines":
            return VecV(recv.line_items())
        if isinstance(recv, LineZ) and meth == "lines":
            return VecV(((z3.Length(recv.s) > 0, recv),))
        if isinstance(recv, LineZ) and meth == "split" and args and args[0] == "\n":
            return VecV(((True, recv),))
        if isinstance(recv, (StrZ,)) and meth == "is_ascii":
            return z3.InRe(recv.s, z3.Star(z3.Range("\x00", "\x7f")))
        if isinstance(recv, VecV) and meth == "skip" and args and is_intterm(args[0]):
            out, rank = [], 0
            for g, v in recv.items:
                out.append((And(g, rank >= args[0]), v))
                rank = rank + (If(g, 1, 0) if is_sym(g) else (1 if g else 0))
            return VecV(tuple(out))
        if isinstance(recv, TextV) and meth == "split" and args and args[0] == "\n":
            items = list(recv.line_items())
            # "".split('\n') yields one empty piece
            items[0] = (True, items[0][1])
            return VecV(tuple(items))
        if isinstance(recv, (StrZ, str)) and meth in ("chars", "bytes"):
            return CharsV(to_strz(recv))
        if isinstance(recv, CharsV):
            sz = recv.s
            if meth in ("all", "any") and args and isinstance(args[0], Closure):
                cl = args[0]
                pname = cl.params[0]
                while pname["k"] in ("pref", "ptype"):
                    pname = pname["pat"]
                cls = char_class(self, cl.body, pname.get("name"), cl.frame) if pname["k"] == "pident" else None
                if cls is None:
                    raise Unsupported("character predicate closure (line %s)" % e.get("line"))
                rest = z3.SubString(sz, recv.start, z3.Length(sz) - recv.start) if not (isinstance(recv.start, int) and recv.start == 0) else sz
                if meth == "all":
                    return z3.InRe(rest, z3.Star(cls))
                anyc = z3.Full(z3.ReSort(z3.StringSort()))
                return z3.InRe(rest, z3.Concat(anyc, cls, anyc))
            if meth == "nth" and args:
                k = args[0]
                pos = recv.start + k
                return Opt(z3.Length(sz) > pos, StrZ(z3.SubString(sz, pos, 1)))
            if meth == "next":
                pos = recv.start
                # advancing iterator: rebinding
                self.assign(e["recv"], CharsV(sz, recv.start + 1), fr, guard)
                return Opt(z3.Length(sz) > pos, StrZ(z3.SubString(sz, pos, 1)))
            if meth == "count":
                return z3.Length(sz) - recv.start
            if meth in ("last",):
                n = z3.Length(sz)
                return Opt(n > recv.start, StrZ(z3.SubString(sz, n - 1, 1)))
            if meth == "skip" and args:
                return CharsV(sz, recv.start + args[0])
            if meth in ("rev", "enumerate", "peekable"):
                raise Unsupported("character iterator adaptor .%s" % meth)
            if meth in ("take_while", "skip_while") and args and isinstance(args[0], Closure):
                cl = args[0]
                pname = cl.params[0]
                while pname["k"] in ("pref", "ptype"):
                    pname = pname["pat"]
                cls = char_class(self, cl.body, pname.get("name"), cl.frame) if pname["k"] == "pident" else None
                if cls is None:
                    raise Unsupported("character predicate closure (line %s)" % e.get("line"))
                # longest prefix of class characters: fresh split  rest = pre ++ post
                self.counter += 1
                pre, post = z3.String("tw_pre#%d" % self.counter), z3.String("tw_post#%d" % self.counter)
                rest = z3.SubString(sz, recv.start, z3.Length(sz) - recv.start)
                notcls = z3.Intersect(z3.Complement(cls), z3.AllChar(z3.ReSort(z3.StringSort())))
                self.constraints += [rest == z3.Concat(pre, post), z3.InRe(pre, z3.Star(cls)),
                                     z3.Or(z3.Length(post) == 0, z3.InRe(z3.SubString(post, 0, 1), notcls))]
                return StrZ(pre) if meth == "take_while" else CharsV(post)
            if meth == "collect":
                return StrZ(z3.SubString(sz, recv.start, z3.Length(sz) - recv.start)) if not (isinstance(recv.start, int) and recv.start == 0) else StrZ(sz)
        if isinstance(recv, StrZ) and meth in ("is_ascii_digit", "is_ascii_uppercase", "is_ascii_lowercase", "is_ascii_alphabetic",
                                               "is_ascii_alphanumeric", "is_alphabetic", "is_numeric", "is_alphanumeric", "is_uppercase",
                                               "is_whitespace", "is_ascii_whitespace", "is_digit"):
            cls = char_class(self, {"k": "mcall", "recv": {"k": "path", "path": "c"}, "method": meth, "args": []}, "c", fr)
            return z3.InRe(recv.s, cls)
        if isinstance(recv, StrZ) and meth == "to_digit":
            code = z3.StrToCode(recv.s)
            return Opt(z3.And(code >= 48, code <= 57), code - 48)
        if isinstance(recv, (StrZ, str)) and meth in ("trim", "trim_start", "trim_end") and isinstance(recv, StrZ):
            raise Unsupported("trim on a symbolic string")
        if isinstance(recv, (StrZ,)) and meth == "split_once" and args:
            sz = recv.s
            d = to_strz(args[0])
            i = z3.IndexOf(sz, d, 0)
            return Opt(i >= 0, TupleV((StrZ(z3.SubString(sz, 0, i)), StrZ(z3.SubString(sz, i + z3.Length(d), z3.Length(sz) - i - z3.Length(d))))))
        if isinstance(recv, VecV) and meth == "remove" and args and args[0] == 0:
            # remove(0): drop the first present element
            out, found = [], False
            first = None
            for g, v in recv.items:
                isfirst = And(g, Not(found))
                out.append((And(g, found), v))
                first = v if first is None else merge(B(isfirst), v, first)
                found = Or(found, g)
            self.assign(e["recv"], VecV(tuple(out)), fr, guard)
            return first
        if isinstance(recv, VecV) and meth == "take" and args and isinstance(args[0], int):
            out, rank = [], 0
            for g, v in recv.items:
                out.append((And(g, rank < args[0]), v))
                rank = rank + (If(g, 1, 0) if is_sym(g) else (1 if g else 0))
            return VecV(tuple(out))
        if isinstance(recv, VecV) and meth == "join" and args and isinstance(args[0], str):
            acc, any_ = "", False
            for g, v in recv.items:
                with_sep = text_concat(text_concat(acc, args[0]), v)
                without = text_concat(acc, v)
                nxt = merge(B(any_), with_sep, without) if is_sym(any_) else (with_sep if any_ else without)
                acc = merge(B(g), nxt, acc) if is_sym(g) else (nxt if g else acc)
                any_ = Or(any_, g)
            return acc
        if isinstance(recv, VecV) and meth == "contains" and args and isinstance(args[0], (int,)) is False and is_intterm(args[0]) and all(isinstance(v, int) for _, v in recv.items):
            return Or(*[And(g, args[0] == v) for g, v in recv.items])
        if isinstance(recv, StrZ) or (isinstance(recv, str) and any(isinstance(a, StrZ) for a in args)):
            s = to_strz(recv)
            if meth in ("to_string", "clone", "as_str", "to_owned", "as_ref", "trim", "borrow", "into", "as_bytes", "chars"):
                return recv
            if meth == "contains":
                return z3.Contains(s, to_strz(args[0]))
            if meth == "starts_with":
                return z3.PrefixOf(to_strz(args[0]), s)
            if meth == "ends_with":
                return z3.SuffixOf(to_strz(args[0]), s)
            if meth == "len":
                return z3.Length(s)
            if meth == "is_empty":
                return z3.Length(s) == 0
            if meth in ("to_uppercase", "to_ascii_uppercase"):
                # ASCII upper-casing, exact for strings of at most CASE_LEN characters (asserted as a bound)
                L = self.CASE_LEN
                self.constraints.append(z3.Length(s) <= L)
                self.constraints.append(z3.InRe(s, z3.Star(z3.Range(" ", "~"))))
                self.bounds_used.add("strings passed to to_uppercase: printable ASCII, length <= %d" % L)
                parts = []
                for i in range(L):
                    ch = z3.SubString(s, i, 1)
                    code = z3.StrToCode(ch)
                    up = z3.If(z3.And(code >= 97, code <= 122), z3.StrFromCode(code - 32), ch)
                    parts.append(up)
                return StrZ(z3.Concat(*parts))
            if meth in ("to_lowercase", "to_ascii_lowercase"):
                raise Unsupported("case conversion of a symbolic string")
            if meth in ("push_str", "push"):
                self.assign(e["recv"], text_concat(recv, args[0]), fr, guard)
                return UNIT
            if meth in ("all", "any") and args and isinstance(args[0], Closure):
                cl = args[0]
                body = cl.body
                classes = {"is_ascii_alphabetic": z3.Union(z3.Range("A", "Z"), z3.Range("a", "z")),
                           "is_ascii_digit": z3.Range("0", "9"), "is_ascii_uppercase": z3.Range("A", "Z"),
                           "is_ascii_lowercase": z3.Range("a", "z"),
                           "is_ascii_alphanumeric": z3.Union(z3.Range("A", "Z"), z3.Range("a", "z"), z3.Range("0", "9"))}
                if body["k"] == "mcall" and body["recv"]["k"] == "path" and body["method"] in classes and not body["args"]:
                    cls = classes[body["method"]]
                    if meth == "all":
                        return z3.InRe(s, z3.Star(cls))
                    return z3.Not(z3.InRe(s, z3.Star(z3.Complement(cls)))) if False else z3.InRe(s, z3.Concat(z3.Full(z3.ReSort(z3.StringSort())), cls, z3.Full(z3.ReSort(z3.StringSort()))))
                raise Unsupported("character predicate closure on a symbolic string")
            if meth == "strip_prefix":
                pre = to_strz(args[0])
                return Opt(z3.PrefixOf(pre, s), StrZ(z3.SubString(s, z3.Length(pre), z3.Length(s) - z3.Length(pre))))
            if meth == "find" and isinstance(args[0], (str, StrZ)):
                i = z3.IndexOf(s, to_strz(args[0]), 0)
                return Opt(i >= 0, i)
        if isinstance(recv, (str, StrZ, ChronoStr)) and meth in ("push_str", "push") and args and not isinstance(args[0], (FieldEmit, EmitV, Opaque)) \
                and not (isinstance(recv, str) and isinstance(args[0], str) and self.N > 1):
            a0 = args[0]
            if isinstance(recv, str) and isinstance(a0, str):
                self.assign(e["recv"], recv + a0, fr, guard)
            else:
                self.assign(e["recv"], text_concat(recv, a0), fr, guard)
            return UNIT
        if isinstance(recv, str) and not any(isinstance(a, StrZ) for a in args):
            if meth in ("as_bytes", "bytes") and all(ord(c) < 128 for c in recv):
                return recv          # ASCII: bytes and characters coincide
            if meth == "eq_ignore_ascii_case" and args and isinstance(args[0], str):
                return recv.lower() == args[0].lower() if all(ord(c) < 128 for c in recv + args[0]) else \
                    "".join(c.lower() if ord(c) < 128 else c for c in recv) == "".join(c.lower() if ord(c) < 128 else c for c in args[0])
            if meth in ("to_uppercase", "to_ascii_uppercase"):
                return recv.upper()
            if meth in ("to_lowercase", "to_ascii_lowercase"):
                return recv.lower()
            if meth == "contains" and args and isinstance(args[0], str):
                return args[0] in recv
            if meth == "starts_with" and args and isinstance(args[0], str):
                return recv.startswith(args[0])
            if meth == "ends_with" and args and isinstance(args[0], str):
                return recv.endswith(args[0])
            if meth == "trim":
                return recv.strip()
        if isinstance(recv, ChronoStr):
            if meth in ("to_string", "clone", "as_str", "to_owned", "as_ref", "borrow", "into"):
                return recv
            return self.builtin_method(StrZ(recv.z()), meth, args, e, fr, guard)
        if isinstance(recv, DateV):
            if meth == "year":
                return recv.y
            if meth == "month":
                return recv.m
            if meth == "day":
                return recv.d
            if meth == "format" and args and isinstance(args[0], str):
                return self.chrono_format(recv, args[0])
            if meth in ("clone", "to_owned"):
                return recv
        if isinstance(recv, TimeV):
            if meth == "hour":
                return recv.h
            if meth == "minute":
                return recv.mi
            if meth == "second":
                return recv.s
            if meth == "format" and args and isinstance(args[0], str):
                return self.chrono_format(recv, args[0])
            if meth in ("clone", "to_owned"):
                return recv
        if isinstance(recv, (StrZ,)) and meth == "parse" and const_len_substring(recv.s) is not None:
            base, off, L = const_len_substring(recv.s)
            codes = [z3.StrToCode(z3.SubString(base, off + k, 1)) for k in range(L)]
            isd = lambda c: z3.And(c >= 48, c <= 57)
            full = z3.Length(recv.s) == L
            plain = z3.And(full, *[isd(c) for c in codes])
            val_plain = sum((codes[k] - 48) * (10 ** (L - 1 - k)) for k in range(L))
            if L >= 2:
                signed = z3.And(full, codes[0] == 43, *[isd(c) for c in codes[1:]])
                val_signed = sum((codes[k] - 48) * (10 ** (L - 1 - k)) for k in range(1, L))
                return Res(z3.Or(plain, signed), z3.If(plain, val_plain, val_signed), Opaque("ParseIntError"))
            return Res(plain, val_plain, Opaque("ParseIntError"))
        if isinstance(recv, (StrZ,)) and meth == "parse":
            sz = recv.s
            digits = z3.Plus(z3.Range("0", "9"))
            ok = z3.Or(z3.InRe(sz, digits), z3.InRe(sz, z3.Concat(z3.Re("+"), digits)))
            val = z3.If(z3.PrefixOf(z3.StringVal("+"), sz), z3.StrToInt(z3.SubString(sz, 1, z3.Length(sz) - 1)), z3.StrToInt(sz))
            return Res(ok, val, Opaque("ParseIntError"))
        if isinstance(recv, StrZ) and meth == "replace" and len(args) == 2:
            return StrZ(z3.Replace(recv.s, to_strz(args[0]), to_strz(args[1])))
        if isinstance(recv, FPV):
            if meth == "abs":
                return FPV(z3.fpAbs(recv.f))
            if meth in ("clone", "to_owned"):
                return recv
            if meth in ("max", "min") and len(args) == 1:
                other = to_fp(args[0])
                return FPV(z3.fpMax(recv.f, other) if meth == "max" else z3.fpMin(recv.f, other))
        if isinstance(recv, float) and meth in ("max", "min") and len(args) == 1 and isinstance(args[0], FPV):
            mine = z3.FPVal(recv, z3.Float64())
            return FPV(z3.fpMax(mine, args[0].f) if meth == "max" else z3.fpMin(mine, args[0].f))
        if isinstance(recv, VecV):
            if meth in ("sort", "sort_unstable") and not args and recv.canonical is not None:
                # sorting the members of a HashSet: the result depends on the members only, not on the iteration order.
                # Modelled as a content-determined order (first-insertion order), which is all the determinism queries need;
                # the actual lexicographic order of the text is not modelled
                self.bounds_used.add("sort() of a HashSet's members: modelled as a content-determined order, not the lexicographic one")
                self.assign(e["recv"], recv.canonical, fr, guard)
                return UNIT
            if meth in ("collect", "cloned", "copied") and recv.canonical is not None and not any("HashSet" in t for t in (e.get("turbofish") or [])):
                return recv
            if meth == "contains" and args:
                return Or(*[And(g, self.equals(v, args[0])) for g, v in recv.items])
            if meth in ("any", "all") and isinstance(args[0], Closure):
                rs = [(g, self.as_bool(self.call_closure(args[0], [v], fr, And(guard, g)))) for g, v in recv.items]
                if meth == "any":
                    return Or(*[And(g, r) for g, r in rs])
                return And(*[Or(Not(g), r) for g, r in rs])
            if meth == "position" and isinstance(args[0], Closure):
                found, idx, rank = False, 0, 0
                out = None
                res = []
                for g, v in recv.items:
                    hit = And(g, self.as_bool(self.call_closure(args[0], [v], fr, And(guard, g))))
                    res.append((And(hit, Not(found)), rank))
                    found = Or(found, hit)
                    rank = rank + (If(g, 1, 0) if is_sym(g) else (1 if g else 0))
                val = 0
                for c, r in reversed(res):
                    val = If(c, r, val) if is_sym(c) else (r if c else val)
                return Opt(found, val)
            if meth == "map" and isinstance(args[0], Closure):
                return VecV(tuple((g, self.call_closure(args[0], [v], fr, And(guard, g))) for g, v in recv.items))
            if meth == "filter" and isinstance(args[0], Closure):
                return VecV(tuple((And(g, self.as_bool(self.call_closure(args[0], [v], fr, And(guard, g)))), v) for g, v in recv.items))
            if meth == "filter_map" and isinstance(args[0], Closure):
                out = []
                for g, v in recv.items:
                    r = self.call_closure(args[0], [v], fr, And(guard, g))
                    if not isinstance(r, Opt):
                        raise Unsupported("filter_map closure result")
                    out.append((And(g, r.present), r.val))
                return VecV(tuple(out))
            if meth == "sum":
                acc = None
                for g, v in recv.items:
                    if isinstance(v, FPV):
                        acc = to_fp(acc) if acc is not None else z3.FPVal(0.0, z3.Float64())
                        acc = FPV(z3.If(B(g), z3.fpAdd(z3.RNE(), acc, v.f), acc))
                    else:
                        acc = (acc if acc is not None else 0) + If(g, v, 0)
                if acc is None:
                    return FPV(z3.FPVal(0.0, z3.Float64()))
                return acc
            if meth == "count":
                return sum((If(g, 1, 0) if is_sym(g) else (1 if g else 0)) for g, _ in recv.items) if recv.items else 0
            if meth == "enumerate":
                if recv.dense or all(g is True for g, _ in recv.items) or len(recv.items) <= 1:
                    return VecV(tuple((g, TupleV((k, v))) for k, (g, v) in enumerate(recv.items)))
                rank, out = 0, []
                for g, v in recv.items:
                    out.append((g, TupleV((rank, v))))
                    rank = rank + (If(g, 1, 0) if is_sym(g) else (1 if g else 0))
                return VecV(tuple(out))
            if meth == "flatten":
                out = []
                for g, inner in recv.items:
                    if isinstance(inner, Opt):
                        out.append((And(g, inner.present), inner.val))
                    elif isinstance(inner, VecV):
                        out += [(And(g, g2), v) for g2, v in inner.items]
                    else:
                        raise Unsupported("flatten over %s" % type(inner).__name__)
                return VecV(tuple((g, v) for g, v in out if is_sym(g) or g))
            if meth == "extend":
                other = args[0]
                if not isinstance(other, VecV):
                    raise Unsupported("extend with %s" % type(other).__name__)
                lg = self.live(fr, guard)
                self.assign(e["recv"], VecV(recv.items + tuple((And(lg, g), v) for g, v in other.items)), fr, guard)
                return UNIT
            if meth in ("first", "last"):
                if not recv.items:
                    return Opt(False, None)
                if meth == "first":
                    return Opt(Or(*[g for g, _ in recv.items]), self.vec_index(recv, 0))
                n = sum((If(g, 1, 0) if is_sym(g) else (1 if g else 0)) for g, _ in recv.items)
                return Opt(Or(*[g for g, _ in recv.items]), self.vec_index(recv, n - 1))
            if meth == "collect" and any("HashSet" in t for t in (e.get("turbofish") or [])):
                return SetZ(tuple(recv.items))
            if meth in ("collect", "cloned", "copied", "rev", "peekable", "skip_while"):
                return recv
            if meth == "skip" and isinstance(args[0], int):
                out, rank = [], 0
                for g, v in recv.items:
                    keep = (rank >= args[0])
                    out.append((And(g, keep), v))
                    rank = rank + (If(g, 1, 0) if is_sym(g) else (1 if g else 0))
                return VecV(tuple((g, v) for g, v in out if is_sym(g) or g))
        if isinstance(recv, SetV) or isinstance(recv, SetZ):
            pass
        if isinstance(recv, SetZ):
            if meth in ("iter", "into_iter", "drain"):
                return self.set_order(recv)
            if meth in ("collect", "cloned"):
                return recv
            if meth == "contains":
                return Or(*[And(g, to_strz(v) == to_strz(args[0])) for g, v in recv.items])
            if meth == "insert":
                had = Or(*[And(g, to_strz(v) == to_strz(args[0])) for g, v in recv.items])
                self.assign(e["recv"], SetZ(recv.items + ((self.live(fr, guard), args[0]),)), fr, guard)
                return Not(had)
            if meth == "len":
                # number of distinct members
                n = 0
                for k, (g, v) in enumerate(recv.items):
                    dup = Or(*[And(g2, to_strz(v2) == to_strz(v)) for g2, v2 in recv.items[:k]])
                    n = n + If(And(g, Not(dup)), 1, 0)
                return n
            if meth == "is_empty":
                return Not(Or(*[g for g, _ in recv.items]))
        if isinstance(recv, Opt):
            if meth == "is_some_and" and isinstance(args[0], Closure):
                return And(recv.present, self.as_bool(self.call_closure(args[0], [recv.val], fr, And(guard, recv.present)))) if recv.val is not None else False
            if meth in ("and_then",) and isinstance(args[0], Closure):
                if recv.val is None:
                    return Opt(False, None)
                r = self.call_closure(args[0], [recv.val], fr, And(guard, recv.present))
                if not isinstance(r, Opt):
                    raise Unsupported("and_then closure result")
                return Opt(And(recv.present, r.present), r.val)
            if meth == "unwrap_or_default":
                return recv.val
            if meth == "map_or" and isinstance(args[1], Closure):
                if recv.val is None:
                    return args[0]
                return merge(B(recv.present), self.call_closure(args[1], [recv.val], fr, And(guard, recv.present)), args[0])
        if isinstance(recv, EnumV):
            m = self.prog.method(recv.name, meth)
            if m is not None:
                return self.invoke(m, [], fr, guard, recv.name, None, recv=recv, recv_expr=None) if not e["args"] else \
                    self.invoke(m, e["args"], fr, guard, recv.name, e.get("turbofish"), recv=recv, recv_expr=None)
        if meth in ("min", "max") and args and (is_intterm(recv) or isinstance(recv, int)) and (is_intterm(args[0]) or isinstance(args[0], int)):
            a, b = recv, args[0]
            if isinstance(a, int) and isinstance(b, int):
                return min(a, b) if meth == "min" else max(a, b)
            return z3.If(a <= b, a, b) if meth == "min" else z3.If(a >= b, a, b)
        if meth == "serialize_str" and args:
            return Res(True, args[0], Opaque("ser-error"))
        if meth == "downcast_ref":
            want = (e.get("turbofish") or ["?"])[0].split("::")[-1]
            have = recv.name if isinstance(recv, StructV) else None
            return Opt(have == want, recv)
        if isinstance(recv, Opaque) and meth in ("format", "to_string", "clone", "year", "month", "day"):
            return Opaque(meth)
        return super().builtin_method(recv, meth, args, e, fr, guard)

    def invoke(self, m, arg_exprs, fr, guard, self_ty, turbofish=None, recv=None, recv_expr=None):
        name = m[0]["sig"]["name"]
        if m[2] is None and name in ("format_swift_amount", "format_swift_amount_for_currency"):
            args = [self.eval(a, fr, guard) for a in arg_exprs]
            if isinstance(args[0], FPV):
                # text of an amount: uninterpreted (the decimal pipeline is outside this encoding)
                if not hasattr(self, "_amt2"):
                    self._amt2 = z3.Function("swift_amount_text", z3.Float64(), z3.StringSort())
                return StrZ(self._amt2(args[0].f))
        return super().invoke(m, arg_exprs, fr, guard, self_ty, turbofish, recv, recv_expr)

    def coerce_return(self, fn, out):
        if "HashSet<" in fn["sig"].get("ret", "") and isinstance(out, VecV):
            return SetZ(tuple(out.items))
        return out

    def _skip(self, vec, k):
        raise Unsupported("skip on a vector with symbolic prefix")

    def ev_call(self, e, fr, guard):
        f = e["func"]
        if f["k"] == "path" and f["path"] in ("HashSet::new", "std::collections::HashSet::new"):
            return SetZ(())
        if f["k"] == "path":
            p = f["path"]
            if p.endswith("::default") and not e["args"] and len(p.split("::")) >= 2:
                ty = p.split("::")[-2]
                ty = fr.self_ty if ty == "Self" else ty
                if ty in self.prog.structs and not self.prog.fns.get((ty, "default", True)) and not self.prog.fns.get((ty, "default", False)):
                    return self.default_of(ty)       # #[derive(Default)]
            if p.endswith("NaiveDate::from_ymd_opt"):
                y, m, d = [self.eval(a, fr, guard) for a in e["args"]]
                y, m, d = [x if is_sym(x) else z3.IntVal(x) for x in (y, m, d)]
                return Opt(valid_date(y, m, d), DateV(y, m, d))
            if p.endswith("NaiveTime::from_hms_opt"):
                h, mi, sec = [self.eval(a, fr, guard) for a in e["args"]]
                h, mi, sec = [x if is_sym(x) else z3.IntVal(x) for x in (h, mi, sec)]
                return Opt(z3.And(h >= 0, h < 24, mi >= 0, mi < 60, sec >= 0, sec < 60), TimeV(h, mi, sec))
            if p.endswith("NaiveDate::parse_from_str"):
                sv, fmt = [self.eval(a, fr, guard) for a in e["args"]]
                if isinstance(sv, ChronoStr) and isinstance(sv.v, DateV):
                    if sv.fmt == fmt:
                        return Res(True, sv.v, Opaque("chrono::ParseError"))
                    raise Unsupported("parse_from_str(%r) of a date formatted with %r" % (fmt, sv.fmt))
                if fmt in ("%y%m%d", "%Y%m%d"):
                    # chrono's documented behaviour on a string of exactly 6 (8) digits: %y is the year modulo 100 with the
                    # POSIX pivot (00-68 -> 20xx, 69-99 -> 19xx), %m / %d two digits; the date must exist. What chrono does
                    # with any other text (fewer digits, blanks, signs) is left open: acceptance and value are unconstrained.
                    sz = to_strz(sv)
                    dg = z3.Range("0", "9")
                    L = 6 if fmt == "%y%m%d" else 8
                    shape = z3.InRe(sz, z3.Concat(*[dg] * L))
                    num = lambda off, n: sum((z3.StrToCode(z3.SubString(sz, off + k, 1)) - 48) * (10 ** (n - 1 - k)) for k in range(n))
                    if L == 6:
                        yy = num(0, 2)
                        y = z3.If(yy <= 68, 2000 + yy, 1900 + yy)
                        m_, d_ = num(2, 2), num(4, 2)
                    else:
                        y, m_, d_ = num(0, 4), num(4, 2), num(6, 2)
                    free_ok = z3.Bool(self.fresh_name("chrono_accepts_other_text"))
                    fy, fm, fd = (z3.Int(self.fresh_name("chrono_other_" + k)) for k in "ymd")
                    self.constraints.append(z3.Implies(z3.Not(shape), valid_date(fy, fm, fd)))
                    ok = z3.If(shape, valid_date(y, m_, d_), free_ok)
                    return Res(ok, DateV(z3.If(shape, y, fy), z3.If(shape, m_, fm), z3.If(shape, d_, fd)), Opaque("chrono::ParseError"))
                if fmt != "%Y-%m-%d":
                    raise Unsupported("NaiveDate::parse_from_str with format %r" % (fmt,))
                sz = to_strz(sv)
                dg = z3.Range("0", "9")
                shape = z3.InRe(sz, z3.Concat(dg, dg, dg, dg, z3.Re("-"), dg, dg, z3.Re("-"), dg, dg))
                num = lambda off, L: sum((z3.StrToCode(z3.SubString(sz, off + k, 1)) - 48) * (10 ** (L - 1 - k)) for k in range(L))
                y, m, d = num(0, 4), num(5, 2), num(8, 2)
                return Res(z3.And(shape, valid_date(y, m, d)), DateV(y, m, d), Opaque("chrono::ParseError"))
            if p.endswith("String::deserialize") and getattr(self, "deser_feed", None) is not None:
                return Res(True, self.deser_feed, Opaque("de-error"))
            if p.endswith("String::deserialize"):
                sname = self.fresh_name("deserialized")
                sv = z3.String(sname)
                self.deser_inputs.append(sv)
                return Res(True, StrZ(sv), Opaque("de-error"))
            if p.endswith("Error::custom"):
                for a in e["args"]:
                    self.eval(a, fr, guard)
                return Opaque("serde-error")
        return super().ev_call(e, fr, guard)

    def ev_mcall(self, e, fr, guard):
        # methods on enum values (e.g. SwiftValidationError::error_code) and struct values are user code
        return super().ev_mcall(e, fr, guard)


class SetZ:
    """HashSet<String> of symbolic strings: guarded insertions."""
    __slots__ = ("items",)

    def __init__(self, items):
        self.items = items


_orig_merge = interp.merge


def _merge_ext(c, a, b):
    if isinstance(a, SetZ) and isinstance(b, SetZ) and is_sym(c):
        k = 0
        while k < len(a.items) and k < len(b.items) and a.items[k] is b.items[k]:
            k += 1
        return SetZ(a.items[:k] + tuple((And(c, g), v) for g, v in a.items[k:]) + tuple((And(Not(c), g), v) for g, v in b.items[k:]))
    return _orig_merge(c, a, b)


interp.merge = _merge_ext
# the names imported with * above were bound before patching
merge = _merge_ext


def error_codes(val):
    """[(guard, code string term or python str)] of a Vec<SwiftValidationError> / Option<..> value"""
    out = []

    def code_of(err, g):
        for ga, v in alt_of(err):
            if isinstance(v, EnumV) and v.payload and isinstance(v.payload, list) and isinstance(v.payload[0], StructV):
                out.append((And(g, ga), v.payload[0].fields.get("code")))
            else:
                raise Unsupported("validation error value %r" % (v,))
    if isinstance(val, VecV):
        for g, v in val.items:
            code_of(v, g)
    elif isinstance(val, Opt):
        if val.val is not None:
            code_of(val.val, val.present)
    else:
        raise Unsupported("not an error list: %r" % (val,))
    return out


def error_sites(val):
    """[(guard, {field name: python str | z3 string term})] for every error construction site of a Vec / Option of
    SwiftValidationError: the code and every other string field of the error that the interpreter could evaluate"""
    out = []

    def one(err, g):
        for ga, v in alt_of(err):
            if isinstance(v, EnumV) and v.payload and isinstance(v.payload, list) and isinstance(v.payload[0], StructV):
                fields = {}
                for name, fv in v.payload[0].fields.items():
                    if isinstance(fv, str):
                        fields[name] = fv
                    elif isinstance(fv, (StrZ, ChronoStr)):
                        fields[name] = to_strz(fv)
                out.append((And(g, ga), fields))
            else:
                raise Unsupported("validation error value %r" % (v,))
    if isinstance(val, VecV):
        for g, v in val.items:
            one(v, g)
    elif isinstance(val, Opt):
        if val.val is not None:
            one(val.val, val.present)
    else:
        raise Unsupported("not an error list: %r" % (val,))
    return out


# ----------------------------------------------------------------------------------------------
# model -> JSON in the serde representation of the message structs (for replay)
# ----------------------------------------------------------------------------------------------
import re as _re


def _serde_attr(meta, key):
    for a in meta.get("attrs", []):
        if a.replace(" ", "").startswith("serde("):
            m = _re.search(key + r'\s*=\s*"([^"]*)"', a)
            if m:
                return m.group(1)
    return None


def _serde_flag(meta, flag):
    return any(a.replace(" ", "").startswith("serde(") and _re.search(r"\b%s\b" % flag, a) for a in meta.get("attrs", []))


def _zstr(v):
    s = v.as_string()
    return _re.sub(r"\\u\{([0-9a-fA-F]+)\}", lambda m: chr(int(m.group(1), 16)), s)


def to_json(prog, model, val, ty=None, meta=None):
    """JSON value of an instance under a model; returns (present, json)."""
    ev = lambda t: model.eval(B(t) if isinstance(t, bool) else t, model_completion=True)
    if isinstance(val, Opt):
        if not z3.is_true(ev(B(val.present))):
            return False, None
        return to_json(prog, model, val.val, ty, meta)
    if isinstance(val, VecV):
        out = []
        for g, x in val.items:
            if z3.is_true(ev(B(g))):
                out.append(to_json(prog, model, x, None, None)[1])
        if ty and ("HashMap" in ty):
            return True, {}
        return True, out
    if isinstance(val, StrZ):
        return True, _zstr(ev(val.s))
    if isinstance(val, FPV):
        v = ev(val.f)
        try:
            return True, float(v.as_decimal(17).rstrip("?")) if hasattr(v, "as_decimal") else float(str(v))
        except Exception:
            try:
                sig = float(v.significand_as_long()) if False else None
            except Exception:
                sig = None
            s = str(v)
            m = _re.match(r"^(-?[0-9.]+)\*\(2\*\*(-?[0-9]+)\)$", s)
            if m:
                return True, float(m.group(1)) * (2.0 ** int(m.group(2)))
            return True, float(eval(s)) if _re.match(r"^-?[0-9.e+-]+$", s) else 0.0
    if is_sym(val):
        v = ev(val)
        if z3.is_bool(v):
            return True, z3.is_true(v)
        return True, v.as_long()
    if isinstance(val, (bool, int, str)):
        return True, val
    if isinstance(val, DateV):
        w = _serde_attr(meta or {}, "with") or ""
        y, mo, d = (ev(t).as_long() for t in (val.y, val.m, val.d))
        if "date_format" in w:
            return True, "%02d%02d%02d" % (y % 100, mo, d)
        return True, "%04d-%02d-%02d" % (y, mo, d)
    if isinstance(val, TimeV):
        w = _serde_attr(meta or {}, "with") or ""
        h, mi = ev(val.h).as_long(), ev(val.mi).as_long()
        if "time_format" in w:
            return True, "%02d%02d" % (h, mi)
        return True, "%02d:%02d:00" % (h, mi)
    if isinstance(val, Opaque):
        w = _serde_attr(meta or {}, "with") or ""
        if "NaiveTime" in val.what or "time" in w:
            return True, "1200" if "time_format" in w else "12:00:00"
        if "date_format" in w:
            return True, "250115"
        return True, "2025-01-15"
    if isinstance(val, StructV):
        sd = prog.structs.get(val.name)
        out = {}
        for f in (sd["fields"] if sd else []):
            name = f["name"]
            if name not in val.fields:
                continue
            pres, j = to_json(prog, model, val.fields[name], f["ty"], f["meta"])
            if _serde_flag(f["meta"], "flatten"):
                if pres and isinstance(j, dict):
                    out.update(j)
                continue
            key = _serde_attr(f["meta"], "rename") or name
            if pres:
                out[key] = j
        return True, out
    if isinstance(val, Alt) or isinstance(val, EnumV):
        for g, x in alt_of(val):
            if isinstance(x, EnumV) and z3.is_true(ev(B(g))):
                ed = prog.enums[x.name]
                vd = [v for v in ed["variants"] if v["name"] == x.variant][0]
                key = _serde_attr(vd["meta"], "rename") or x.variant
                payload = to_json(prog, model, x.payload[0], None, None)[1] if x.payload else None
                if _serde_flag(ed["meta"], "untagged"):
                    return True, payload
                return True, {key: payload}
        return False, None
    if isinstance(val, TupleV):
        return True, [to_json(prog, model, x)[1] for x in val.elems]
    raise Unsupported("cannot render %r as JSON" % (val,))


# ----------------------------------------------------------------------------------------------
# field-level text machinery: multi-line symbolic text, character classes, char iterators
# ----------------------------------------------------------------------------------------------
def structsym_lit(z):
    """a z3 string expression as a structured value when it is a literal (so that its newlines are known)"""
    if z3.is_string_value(z):
        return _zstr(z)
    return StrZ(z)


class LineZ(StrZ):
    """a z3 string known to contain no newline"""
    __slots__ = ()


TEXT_LMAX = 8


class TextV(StrZ):
    """a symbolic multi-line text in structured form: `count` lines (>= 1), line k is the z3 string `lines[k]`
    (newline-free; lines at index >= count are ""). The joined z3 string `.s` is built on demand."""
    __slots__ = ("lines", "count", "_joined")

    def __init__(self, lines, count):
        lines = list(lines) + [z3.StringVal("")] * (TEXT_LMAX - len(lines))
        self.lines, self.count = lines[:TEXT_LMAX], count
        self._joined = None

    @property
    def s(self):
        if self._joined is None:
            z = self.lines[0]
            acc = self.lines[0]
            for k in range(1, len(self.lines)):
                acc = z3.Concat(acc, z3.StringVal("\n"), self.lines[k])
                z = z3.If(self.count > k, acc, z)
            self._joined = z
        return self._joined

    @s.setter
    def s(self, v):
        self._joined = v

    def line_items(self):
        """what Rust's str::lines() yields: no line for the empty text, a trailing empty line is dropped"""
        out = []
        for k, l in enumerate(self.lines):
            last_empty = z3.And(self.count == k + 1, z3.Length(l) == 0)
            out.append((z3.And(self.count > k, z3.Not(last_empty)), LineZ(l)))
        return tuple(out)

    @staticmethod
    def of(x):
        """structured form of a value, or None when its newline structure is unknown"""
        if isinstance(x, TextV):
            return x
        if isinstance(x, LineZ):
            return TextV([x.s], z3.IntVal(1))
        if isinstance(x, ChronoStr):
            return TextV([x.z()], z3.IntVal(1))
        if isinstance(x, str):
            parts = x.split("\n")
            if len(parts) > TEXT_LMAX:
                return None
            return TextV([z3.StringVal(p) for p in parts], z3.IntVal(len(parts)))
        return None

    def concat(self, other):
        """self ++ other (other: TextV): the last line of self is joined with the first line of other"""
        L = TEXT_LMAX
        ca, cb = self.count, other.count
        sca = z3.simplify(ca) if is_sym(ca) else z3.IntVal(ca)
        if z3.is_int_value(sca):
            a_cnt = sca.as_long()
            lines = []
            for k in range(L):
                if k < a_cnt - 1:
                    lines.append(self.lines[k])
                elif k == a_cnt - 1:
                    lines.append(z3.Concat(self.lines[k], other.lines[0]))
                else:
                    idx = k - (a_cnt - 1)
                    lines.append(other.lines[idx] if idx < L else z3.StringVal(""))
            return TextV(lines, z3.simplify(sca + cb - 1))
        lines = []
        for k in range(L):
            # k < ca-1: a[k];  k == ca-1: a[k] ++ b[0];  k > ca-1: b[k-(ca-1)]
            expr = z3.StringVal("")
            for a_cnt in range(L, 0, -1):     # case split on ca (1..L)
                if k < a_cnt - 1:
                    e = self.lines[k]
                elif k == a_cnt - 1:
                    e = z3.Concat(self.lines[k], other.lines[0])
                else:
                    idx = k - (a_cnt - 1)
                    e = other.lines[idx] if idx < L else z3.StringVal("")
                expr = z3.If(ca == a_cnt, e, expr)
            lines.append(z3.simplify(expr))
        return TextV(lines, z3.simplify(ca + cb - 1))

    def text_eq(self, other):
        return z3.And(self.count == other.count, *[z3.Or(self.count <= k, self.lines[k] == other.lines[k]) for k in range(TEXT_LMAX)])


def text_concat(a, b):
    """concatenation that keeps the line structure when both sides have one; otherwise a plain z3 string"""
    ta, tb = TextV.of(a), TextV.of(b)
    if ta is not None and tb is not None:
        r = ta.concat(tb)
        if isinstance(a, (LineZ, str)) and isinstance(b, (LineZ, str)) and not (isinstance(a, str) and "\n" in a) and not (isinstance(b, str) and "\n" in b):
            return LineZ(r.lines[0])
        return r
    return StrZ(z3.Concat(to_strz(a), to_strz(b)))


_merge_prev = interp.merge


def _merge_text(c, a, b):
    if is_sym(c) and (isinstance(a, TextV) or isinstance(b, TextV)):
        ta, tb = TextV.of(a), TextV.of(b)
        if ta is not None and tb is not None:
            return TextV([z3.If(c, x, y) for x, y in zip(ta.lines, tb.lines)], z3.If(c, ta.count, tb.count))
    if is_sym(c) and isinstance(a, (LineZ, str)) and isinstance(b, (LineZ, str)) and (isinstance(a, LineZ) or isinstance(b, LineZ)) \
            and not (isinstance(a, str) and "\n" in a) and not (isinstance(b, str) and "\n" in b):
        return LineZ(z3.If(c, to_strz(a), to_strz(b)))
    return _merge_prev(c, a, b)


interp.merge = _merge_text
merge = _merge_text


NO_NEWLINE = None


def no_newline_re():
    global NO_NEWLINE
    if NO_NEWLINE is None:
        NO_NEWLINE = z3.Star(z3.Union(z3.Range(" ", "~"), z3.Range(chr(0xA0), chr(0xFF)), z3.Re("\t")))
    return NO_NEWLINE


class CharsV:
    """`s.chars()` / `s.bytes()` of a symbolic string (ASCII view: one char = one unit)"""
    __slots__ = ("s", "start")

    def __init__(self, s, start=0):
        self.s, self.start = s, start


def char_class(machine, body, param, fr):
    """z3 regex (one character) for a closure body over the character `param`, or None"""
    k = body["k"]
    R = z3.Range
    table = {"is_ascii_digit": R("0", "9"), "is_ascii_uppercase": R("A", "Z"), "is_ascii_lowercase": R("a", "z"),
             "is_ascii_alphabetic": z3.Union(R("A", "Z"), R("a", "z")),
             "is_ascii_alphanumeric": z3.Union(R("A", "Z"), R("a", "z"), R("0", "9")),
             "is_ascii_whitespace": z3.Union(z3.Re(" "), z3.Re("\t"), z3.Re("\n"), z3.Re("\x0c"), z3.Re("\r")),
             "is_ascii": R("\x00", "\x7f"), "is_ascii_punctuation": z3.Union(R("!", "/"), R(":", "@"), R("[", "`"), R("{", "~")),
             "is_ascii_graphic": R("!", "~"), "is_ascii_control": z3.Union(R("\x00", "\x1f"), z3.Re("\x7f")),
             "is_whitespace": z3.Union(z3.Re(" "), R("\t", "\r")), "is_alphabetic": z3.Union(R("A", "Z"), R("a", "z")),
             "is_numeric": R("0", "9"), "is_alphanumeric": z3.Union(R("A", "Z"), R("a", "z"), R("0", "9")),
             "is_uppercase": R("A", "Z"), "is_lowercase": R("a", "z"), "is_digit": R("0", "9")}
    is_param = lambda e: (e["k"] == "path" and e["path"] == param) or (e["k"] in ("unary", "ref") and is_param(e["expr"]))
    if k == "mcall" and is_param(body["recv"]) and body["method"] in table:
        return table[body["method"]]
    if k == "mcall" and body["method"] == "contains" and len(body["args"]) == 1 and is_param(body["args"][0]):
        recv = machine.eval(body["recv"], fr, True)
        if isinstance(recv, str):
            return z3.Union(*[z3.Re(ch) for ch in recv]) if len(recv) > 1 else z3.Re(recv)
        if isinstance(recv, VecV) and all(isinstance(v, str) for _, v in recv.items):
            return z3.Union(*[z3.Re(v) for _, v in recv.items])
        return None
    if k == "binary" and body["op"] in ("||", "&&"):
        a, b = char_class(machine, body["left"], param, fr), char_class(machine, body["right"], param, fr)
        if a is None or b is None:
            return None
        return z3.Union(a, b) if body["op"] == "||" else z3.Intersect(a, b)
    if k == "binary" and body["op"] in ("==", "!=") and (is_param(body["left"]) or is_param(body["right"])):
        other = body["right"] if is_param(body["left"]) else body["left"]
        if other["k"] == "lit" and other["lit"]["k"] in ("char", "byte"):
            ch = other["lit"]["v"] if other["lit"]["k"] == "char" else chr(other["lit"]["v"])
            r = z3.Re(ch)
            return r if body["op"] == "==" else z3.Intersect(z3.Complement(r), z3.AllChar(z3.ReSort(z3.StringSort())))
        return None
    if k == "unary" and body["op"] == "!":
        a = char_class(machine, body["expr"], param, fr)
        return None if a is None else z3.Intersect(z3.Complement(a), z3.AllChar(z3.ReSort(z3.StringSort())))
    if k == "macro" and body["name"] == "matches":
        return None
    if k == "block" and len(body["stmts"]) == 1 and body["stmts"][0]["k"] == "sexpr":
        return char_class(machine, body["stmts"][0]["expr"], param, fr)
    return None
