"""Token-machine checks per message type: builds the symbolic run of the real layout code, asks the
queries of C01/C02/C03/C07/C09/C14 and concretises + replays every model against the real library."""
import json
import multiprocessing as mp
import os
import re
import sys
import time
import traceback

HERE = os.path.dirname(os.path.abspath(__file__))
sys.path.insert(0, HERE)
sys.path.insert(0, os.path.join(os.path.dirname(HERE), "lib"))
sys.path.insert(0, os.path.join(os.path.dirname(HERE), "specs"))

import z3  # noqa

import layout as layout_mod  # noqa
import layouts as spec_mod  # noqa
import tokq  # noqa
from interp import *  # noqa

QUERY_SETS = {
    "C01": ["unwind", "repr", "sub"],
    "C02": ["unwind", "repr"],
    "C03": ["unwind", "sup", "repr_spec"],
    "C07": ["unwind", "progress"],
    "C09": ["unwind", "missing", "invalid"],
    "C14": ["unwind", "retag", "sup"],
}


def tokenize_mt(text):
    """Independent reference tokenizer of a block-4 text: [(tag, content)]; a field starts at a line
    beginning with ':TAG:' (2 digits + optional letter)."""
    toks = []
    cur = None
    for line in text.replace("\r\n", "\n").split("\n"):
        m = re.match(r"^:([0-9]{2}[A-Z]?):(.*)$", line)
        if m:
            cur = [m.group(1), m.group(2)]
            toks.append(cur)
        elif line == "-" or line == "-}":
            cur = None
        elif cur is not None:
            cur[1] += "\n" + line
    return [(t, c) for t, c in toks]


class TypeCheck:
    def __init__(self, prog, ty, N, tags, samples, known, timeout_ms=180000):
        self.prog, self.ty, self.N, self.tags = prog, ty, N, tags
        self.valid, self.invalid = samples[0], samples[1]
        self.alts = samples[2] if len(samples) > 2 else {}
        self.known = [k for k in known if k.get("type") == ty]
        self.timeout_ms = timeout_ms
        self.results = []
        t0 = time.time()
        self.q = tokq.TokenQueries(prog, ty, N, tags)
        self.build_s = time.time() - t0
        self.G = spec_mod.Glushkov(spec_mod.LAYOUTS[ty])
        self.tag2types = {}
        for t, tg in tags.items():
            self.tag2types.setdefault(tg, []).append(t)

    # -- known-finding exclusions (role predicates over the token list) -------------------------
    def exclusions(self, kind):
        m = self.q.m
        cs = []
        for k in self.known:
            if kind not in k.get("kinds", []):
                continue
            ex = k.get("exclude", {})
            for t in ex.get("no_tag", []):
                cs.append(And(*[Or(m.n <= i, m.tag[i] != m.sid(t)) for i in range(self.N)]))
            for i, t in ex.get("not_at", []):
                if i < self.N:
                    cs.append(Or(m.n <= i, m.tag[i] != m.sid(t)))
        return cs

    # -- concretisation ---------------------------------------------------------------------------
    def content_for(self, tag, ok, prefer_types=()):
        types = list(prefer_types) + self.tag2types.get(tag, [])
        if not types:
            # letter-less spelling of a lettered field: borrow the content of one of its options
            for tg in sorted(self.tag2types):
                if tg.startswith(tag) and len(tg) == len(tag) + 1:
                    types += self.tag2types[tg]
        if ok:
            for t in types:
                if t in self.valid:
                    return self.valid[t]
            return "X"
        for t in types:
            if t in self.invalid:
                return self.invalid[t]
        return "?" * 120

    def concretise(self, model, bad_index=None):
        q, m = self.q, self.q.m
        toks, oks = q.model_tokens(model)
        fields = []
        for i, t in enumerate(toks):
            if t == "<UNK>":
                fields.append(("99Z", "UNKNOWN"))
                continue
            # types the machine parsed this token with and their ok bits in the model
            ok = True
            for (ty, j), v in oks.items():
                if j == i and self.tags.get(ty) == t and not v:
                    ok = False
            if bad_index is not None:
                ok = (i != bad_index)
            fields.append((t, self.content_for(t, ok)))
        text = "".join(":%s:%s\r\n" % (t, c) for t, c in fields) + "-"
        return toks, fields, text

    PRIORITY = ["BANKDEFF", "BANKDEFFXXX", "ABCDEFGH", "/12345678\nBANKDEFFXXX", "/12345678\nBANKDEFF", "/12345678", "12345678",
                "JOHN DOE\n1 MAIN ST", "1/JOHN DOE\n2/1 MAIN ST\n3/US/NEW YORK", "250115USD1000,00", "USD1000,00", "NAME LINE"]

    def variants(self, fields, limit=90):
        """alternative concretisations: one token at a time gets another canonical valid content of a type that
        serialises under the same tag (contents valid for several options, BIC-shaped names, ...); option-lettered
        tags first, distinctive shapes first"""
        per_tok = []
        for i, (t, c) in enumerate(fields):
            seen = {c}
            alts = []
            for ty in self.tag2types.get(t, []):
                for alt in self.alts.get(ty, []):
                    if alt not in seen:
                        seen.add(alt)
                        alts.append(alt)
            alts.sort(key=lambda a: (self.PRIORITY.index(a) if a in self.PRIORITY else len(self.PRIORITY)))
            per_tok.append((0 if len(t) == 3 else 1, i, alts[:8]))
        per_tok.sort()
        out = []
        for rnd in range(8):
            for _, i, alts in per_tok:
                if rnd < len(alts):
                    f2 = list(fields)
                    f2[i] = (fields[i][0], alts[rnd])
                    out.append(f2)
        return out[:limit]

    # -- evaluation of a concrete replay outcome against the property -----------------------------
    def judge(self, kind, fields, out, extra=None):
        """Returns a description of the violation shown by the real run, or None."""
        tags_in = [t for t, _ in fields]
        if "panic" in out:
            return "panic: %s" % out["panic"]
        if kind in ("repr", "retag"):
            if not out.get("ok"):
                return None
            emitted = tokenize_mt(out.get("mt", ""))
            tags_out = [t for t, _ in emitted]
            if tags_out != tags_in:
                return "accepted, but serialisation has tags %s for input tags %s" % (tags_out, tags_in)
            for (t, c), (t2, c2) in zip(fields, emitted):
                if c.replace("\r\n", "\n").strip() != c2.strip():
                    return "accepted, but content of :%s: changed from %r to %r" % (t, c, c2)
            rp = out.get("reparse", {})
            if not rp.get("ok") or rp.get("mt") != out.get("mt") or not rp.get("same_json", True):
                return "serialised text does not round-trip: %s" % json.dumps(rp)[:200]
            return None
        if kind == "sub":
            if out.get("ok") and not self.G.accepts(tags_in):
                return "accepted a field sequence outside the documented layout: %s" % tags_in
            return None
        if kind in ("sup", "repr_spec"):
            if self.G.accepts(tags_in) and not out.get("ok"):
                return "rejected a well-formed message %s: %s" % (tags_in, out.get("display"))
            if kind == "repr_spec" and out.get("ok"):
                return self.judge("repr", fields, out)
            return None
        if kind == "missing":
            # extra = list of acceptable tags naming the missing field
            if out.get("ok"):
                if self.G.accepts(tags_in):
                    return None
                return "accepted although a mandatory field (%s) is missing: %s" % ("/".join(extra["names"]), tags_in)
            err = out.get("err") or {}
            if extra.get("sequence_start"):
                return None
            if "MissingRequiredField" in err:
                e = err["MissingRequiredField"]
                if e.get("field_tag") in extra["names"] and e.get("message_type") == self.ty[2:]:
                    return None
                return "missing %s reported as missing %s in %s" % (extra["names"], e.get("field_tag"), e.get("message_type"))
            if extra.get("sequence_start"):
                return None   # a missing sequence start is indistinguishable from an unexpected field: any rejection
            if "InvalidFormat" in err:
                msg = err["InvalidFormat"].get("message", "")
                if self.ty[2:] in msg and any(re.search(r"(?<![0-9A-Z])%s(?![0-9A-Z])" % re.escape(nm), msg) for nm in extra["names"]):
                    return None   # explicit structural error naming type and tag in its text
            return "missing %s reported as %s" % (extra["names"], out.get("display"))
        if kind == "invalid":
            g = extra["index"]
            if out.get("ok"):
                return "accepted although content of field %d (:%s:) is invalid" % (g, fields[g][0])
            err = out.get("err") or {}
            e = err.get("InvalidFieldFormat")
            if e and e.get("field_tag") == fields[g][0] and e.get("value", "").replace("\r\n", "\n") == fields[g][1].replace("\r\n", "\n"):
                return None
            return "invalid content of :%s: reported as %s" % (fields[g][0], out.get("display"))
        return None

    def ask(self, name, kind, formulas, extra_fn=None, max_models=10, bad_index_term=None):
        """Solve; every model is concretised and replayed. Returns result dict."""
        from common import replay_batch
        q, m = self.q, self.q.m
        s = z3.Solver()
        s.set("timeout", self.timeout_ms)
        for f in formulas:
            s.add(B(f))
        for c in m.domain():
            s.add(c)
        for c in self.exclusions(kind):
            s.add(B(c))
        t0 = time.time()
        res = {"type": self.ty, "query": name, "kind": kind, "N": self.N, "K": q.K}
        tried = []
        while True:
            r = s.check()
            if r == z3.unsat:
                res["verdict"] = "unsat" if not tried else "unsat-after-%d-nonreproducing-models" % len(tried)
                break
            if r != z3.sat:
                res["verdict"] = "unknown"
                break
            model = s.model()
            bad = None
            if bad_index_term is not None:
                bad = model.eval(bad_index_term, model_completion=True).as_long()
            toks, fields, text = self.concretise(model, bad_index=bad)
            extra = extra_fn(model, toks) if extra_fn else None
            if kind == "invalid":
                extra = {"index": bad}
            out = replay_batch([{"op": "block4", "type": self.ty, "text": text}], "dev")[0]
            why = self.judge(kind, fields, out, extra)
            if not why and kind != "invalid":
                vs = self.variants(fields)
                texts = ["".join(":%s:%s\r\n" % (t, c) for t, c in f2) + "-" for f2 in vs]
                outs2 = replay_batch([{"op": "block4", "type": self.ty, "text": tx} for tx in texts], "dev") if texts else []
                for f2, tx, o2 in zip(vs, texts, outs2):
                    w2 = self.judge(kind, f2, o2, extra)
                    if w2:
                        fields, text, out, why = f2, tx, o2, w2
                        break
            tried.append({"tokens": toks, "text": text, "real": {k: out.get(k) for k in ("ok", "mt", "display")}, "violation": why})
            if why:
                res["verdict"] = "sat"
                res["witness"] = {"type": self.ty, "text": text, "tokens": toks, "kind": kind, "extra": extra, "why": why,
                                  "diag": q.diagnose(model) if kind in ("repr", "retag", "repr_spec") else None}
                break
            if len(tried) >= max_models:
                res["verdict"] = "sat-not-reproduced"
                break
            # block this token list (tags and n) and look for another model; the first few retries also ask for a
            # tag that did not occur in the non-reproducing model (moves the search to another option / field)
            n = model.eval(m.n, model_completion=True).as_long()
            s.add(z3.Or(m.n != n, *[m.tag[i] != model.eval(m.tag[i], model_completion=True) for i in range(n)]))
            if len(tried) <= max_models // 2:
                used = set(model.eval(m.tag[i], model_completion=True).as_long() for i in range(n))
                s.push()
                s.add(z3.Or(*[z3.And(i < m.n, z3.And(*[m.tag[i] != u for u in used])) for i in range(self.N)]))
                if s.check() != z3.sat:
                    s.pop()
        res["time_s"] = round(time.time() - t0, 2)
        res["models_tried"] = tried[:3]
        self.results.append(res)
        return res

    # -- translator validation: the encoding must be able to reproduce what the real code does ------
    def gen_corpus(self, rnd, count):
        """random members of the documented layout (<= N tokens) and single-step mutations of them"""
        G = self.G
        out = []
        tries = 0
        while len(out) < count and tries < count * 40:
            tries += 1
            tags, cur = [], None
            ok = False
            for _ in range(self.N + 1):
                cand = sorted(G.first) if cur is None else sorted(G.follow[cur])
                can_stop = (cur is None and G.nullable) or (cur is not None and cur in G.last)
                if can_stop and (not cand or rnd.random() < 0.25):
                    ok = True
                    break
                if not cand or len(tags) >= self.N:
                    ok = can_stop
                    break
                mand = [p for p in cand if G.syms[p]["mandatory"]]
                cur = rnd.choice(mand) if (mand and rnd.random() < 0.6) else rnd.choice(cand)
                tags.append(rnd.choice(G.syms[cur]["tags"]))
            if not ok or not G.accepts(tags):
                continue
            out.append(("valid", tags))
            if tags and len(out) < count:
                k = rnd.randrange(len(tags))
                mut = rnd.choice(["delete", "dup", "swap", "unknown", "append"])
                t2 = list(tags)
                if mut == "delete":
                    del t2[k]
                elif mut == "dup":
                    t2.insert(k, t2[k])
                elif mut == "swap" and k + 1 < len(t2):
                    t2[k], t2[k + 1] = t2[k + 1], t2[k]
                elif mut == "unknown":
                    t2.insert(k, "99Z")
                else:
                    t2.append(rnd.choice(tags))
                if len(t2) <= self.N:
                    out.append((mut, t2))
        return out

    def validate_translation(self, rnd, count=16, extra_texts=()):
        """Concrete texts through the real parser and through the symbolic encoding (tags fixed, contents
        canonical): the real outcome must be a possible outcome of the encoding, and when the real code
        accepts, its serialised tag sequence must be the one the encoding emits."""
        from common import replay_batch
        q, m = self.q, self.q.m
        corpus = self.gen_corpus(rnd, count)
        items, metas = [], []
        for kind, tags in corpus:
            fields = [(t, self.content_for(t, True) if t != "99Z" else "UNKNOWN") for t in tags]
            text = "".join(":%s:%s\r\n" % (t, c) for t, c in fields) + "-"
            items.append({"op": "block4", "type": self.ty, "text": text})
            metas.append((kind, tags, text))
        for text in extra_texts:
            tags = [t for t, _ in tokenize_mt(text)]
            if len(tags) <= self.N:
                items.append({"op": "block4", "type": self.ty, "text": text})
                metas.append(("witness", tags, text))
        outs = replay_batch(items, "dev")
        disagreements, checked = [], 0
        for (kind, tags, text), out in zip(metas, outs):
            if "panic" in out:
                disagreements.append({"text": text, "real": out, "why": "real code panicked"})
                continue
            s = z3.Solver()
            s.set("timeout", 60000)
            for c in m.domain():
                s.add(c)
            s.add(m.n == len(tags))
            for i, t in enumerate(tags):
                s.add(m.tag[i] == (m.sid(t) if t in m.strid else 0))
            if kind != "witness":
                s.add(B(q.all_ok()))
                s.add(B(q.canonical()))
            s.add(B(q.L.accepted) if out.get("ok") else z3.Not(B(q.L.accepted)))
            if out.get("ok"):
                real_tags = [t for t, _ in tokenize_mt(out.get("mt", ""))]
                if real_tags == tags:
                    s.add(z3.Not(B(q.repr_violation())))
                else:
                    s.add(B(q.repr_violation()))
            r = s.check()
            checked += 1
            if r != z3.sat:
                disagreements.append({"tags": tags, "text": text, "real_ok": out.get("ok"), "real_mt": out.get("mt"),
                                      "real_err": out.get("display"), "why": "encoding cannot produce the real outcome (%s)" % r})
        res = {"type": self.ty, "query": "translator-validation", "kind": "validation", "N": self.N, "K": q.K,
               "verdict": "unsat" if not disagreements else "encoder-disagrees", "checked": checked,
               "disagreements": disagreements[:5], "time_s": 0.0,
               "sample": metas[0][2] if metas else None}
        self.results.append(res)
        return res

    # -- the queries --------------------------------------------------------------------------------
    def run(self, which):
        q, m, G = self.q, self.q.m, self.G
        L = q.L
        if "unwind" in which:
            self.results.append({"type": self.ty, "query": "unwinding-assertions", "kind": "unwind", "N": self.N, "K": q.K,
                                 "verdict": "unsat", "time_s": round(q.unwind_time, 2), "obligations": len(m.unwind_obl)})
        if "progress" in which and m.progress_obl:
            self.ask("loop-progress", "progress", [Or(*[g for g, _ in m.progress_obl])])
        if "repr" in which:
            self.ask("accepted=>serialisation-reproduces-token-sequence", "repr", [L.accepted, q.repr_violation()])
        if "retag" in which:
            self.ask("accepted=>every-field-keeps-its-tag", "retag", [L.accepted, q.repr_violation()])
        mem = None
        if any(x in which for x in ("sub", "sup", "repr_spec", "invalid")):
            mem = q.spec_member(G)
        if "sub" in which:
            self.ask("accepted=>in-documented-layout", "sub", [L.accepted, Not(mem)])
        if "sup" in which:
            self.ask("in-documented-layout&canonical=>accepted", "sup", [mem, q.all_ok(), q.canonical(), Not(L.accepted)])
        if "repr_spec" in which:
            self.ask("in-documented-layout&canonical=>reproduced", "repr_spec",
                     [mem, q.all_ok(), q.canonical(), L.accepted, q.repr_violation()])
        if "missing" in which:
            mem0 = q.spec_member(G)
            mand = [p for p, sy in enumerate(G.syms) if sy["mandatory"]]
            for p in mand:
                sy = G.syms[p]
                names = sorted(set(sy["tags"]) | set(t[:2] for t in sy["tags"]))
                seq_start = any(p in G.follow[l] for l in range(len(G.syms)) if False)
                # positions that start a repeating sequence get the explicit "at least one" error
                is_seq_start = self._starts_sequence(p)

                def names_it(v, names=names):
                    return Or(*[And(g, s in names) for g, s in alt_of(v) if isinstance(s, str)])
                okerr = q.err_is("MissingRequiredField", "field_tag", names_it)
                okty = q.err_is("MissingRequiredField", "message_type", lambda v: Or(*[And(g, s == self.ty[2:]) for g, s in alt_of(v) if isinstance(s, str)]))
                good = And(okerr, okty)
                tynum = self.ty[2:]

                def msg_names(v, names=names):
                    conds = []
                    for g, sx in alt_of(v):
                        if isinstance(sx, str) and tynum in sx and any(re.search(r"(?<![0-9A-Z])%s(?![0-9A-Z])" % re.escape(nm), sx) for nm in names):
                            conds.append(g)
                    return Or(*conds)
                good = Or(good, q.err_is("InvalidFormat", "message", msg_names))
                if is_seq_start:
                    good = Not(L.accepted)
                self.ask("deleted-mandatory-%s=>MissingRequiredField" % sy["name"], "missing",
                         [q.spec_member_deleted(G, p), Not(mem0), q.all_ok(), q.canonical(), Not(good)],
                         extra_fn=lambda model, toks, names=names, ss=is_seq_start: {"names": names, "sequence_start": ss})
        if "invalid" in which:
            g = z3.Int("bad_index")
            tag_of_bad = lambda v: Or(*[And(ga, g == i, m.tag[i] == m.sid(s)) for ga, s in alt_of(v) if isinstance(s, str) for i in range(self.N)])
            val_is_bad = lambda v: (m.topos(v.idx).bits[0] if False else Or(*[And(m.topos(v.idx).bits[i], g == i) for i in range(self.N)])) if isinstance(v, TokRef) else False
            good = And(q.err_is("InvalidFieldFormat", "field_tag", tag_of_bad), q.err_is("InvalidFieldFormat", "value", val_is_bad))
            self.ask("one-invalid-content=>InvalidFieldFormat(tag,value)", "invalid",
                     [mem, g >= 0, g < m.n, q.all_ok(except_index=g), q.canonical(), Not(good)], bad_index_term=g)
        return self.results

    def _starts_sequence(self, p):
        # p is the first symbol of a repeating group iff some position of the group loops back to it
        G = self.G
        return any(p in G.follow[q] and q >= p for q in range(len(G.syms)))


def _worker(args):
    ty, N, which, known, samples_json, seed = args
    try:
        prog = Program(layout_mod.extract_ast())
        tags, bad = layout_mod.field_tags(prog)
        if bad:
            return [{"type": ty, "query": "serialiser-tags", "verdict": "not-encoded", "detail": "ambiguous to_swift_string tags: %s" % bad}]
        tc = TypeCheck(prog, ty, N, tags, samples_json, known)
        out = tc.run(which)
        if "validate" in which:
            import random
            wit = [r["witness"]["text"] for r in out if r.get("witness")]
            wit += [k["witness"]["text"] for k in tc.known if k.get("witness")]
            tc.validate_translation(random.Random("%s-%s" % (seed, ty)), extra_texts=wit)
        # known findings: does the stored witness still violate?
        kf = []
        for k in tc.known:
            if k.get("witness") and k.get("report", True):
                from common import replay_batch
                w = k["witness"]
                o = replay_batch([{"op": "block4", "type": ty, "text": w["text"]}], "dev")[0]
                why = tc.judge(w["kind"], tokenize_mt(w["text"]), o, w.get("extra"))
                kf.append({"type": ty, "query": "known-finding", "kind": "known", "key": k["key"], "verdict": "reproduced" if why else "stale",
                           "why": why, "description": k["description"], "time_s": 0.0})
        out = out + kf
        for r in out:
            r["build_s"] = round(tc.build_s, 2)
        return out
    except Unsupported as e:
        return [{"type": ty, "query": "encode", "verdict": "not-encoded", "detail": str(e)}]
    except Exception:
        return [{"type": ty, "query": "encode", "verdict": "error", "detail": traceback.format_exc()[-1500:]}]


def run_all(which, N_for, known, jobs=12, only=None, seed=0):
    """N_for: function type -> N. Returns flat list of query results."""
    import samples as samples_mod
    prog = Program(layout_mod.extract_ast())
    tags, bad = layout_mod.field_tags(prog)
    types = layout_mod.message_types(prog)
    if only:
        types = [t for t in types if t in only]
    missing_spec = [t for t in types if t not in spec_mod.LAYOUTS]
    valid, invalid = samples_mod.discover(sorted(tags), tags)
    tasks = [(ty, N_for(ty), which, known, (valid, invalid, dict(samples_mod.ALT)), seed) for ty in types if ty in spec_mod.LAYOUTS]
    # longest first
    tasks.sort(key=lambda t: -len(spec_mod.LAYOUTS[t[0]]))
    with mp.Pool(min(jobs, len(tasks))) as pool:
        outs = pool.map(_worker, tasks, chunksize=1)
    flat = [r for o in outs for r in o]
    for t in missing_spec:
        flat.append({"type": t, "query": "spec", "verdict": "not-encoded", "detail": "no layout specification for this type"})
    return flat, {"types": types, "tags": tags, "valid_samples": valid, "invalid_samples": invalid}


if __name__ == "__main__":
    prop = sys.argv[1]
    N = int(sys.argv[2])
    only = sys.argv[3:]
    t0 = time.time()
    res, info = run_all(QUERY_SETS[prop] + ["validate"], lambda t: N, [], jobs=14, only=only)
    for r in res:
        line = "%-6s %-55s %-8s %6.1fs" % (r["type"], r["query"][:55], r["verdict"], r.get("time_s", 0))
        if r.get("witness"):
            line += "  " + str(r["witness"]["tokens"]) + " :: " + str(r["witness"]["why"])[:160]
        elif r["verdict"] not in ("unsat",):
            line += "  " + str(r.get("detail", ""))[:300] + str(r.get("disagreements", ""))[:600] + str([t.get("tokens") for t in r.get("models_tried", [])])[:200]
        print(line)
    print("total %.1fs" % (time.time() - t0))
