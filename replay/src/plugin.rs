//! Replay of the dataflow plugin entry points (parse_mt / validate_mt / publish_mt) on concrete inputs.
use std::future::Future;
use std::pin::Pin;
use std::sync::Arc;
use std::task::{Context, Poll, RawWaker, RawWakerVTable, Waker};

use dataflow_rs::engine::{AsyncFunctionHandler, FunctionConfig, Message};
use datalogic_rs::DataLogic;
use serde_json::{json, Value};
use swift_mt_message::plugin::{Parse, Publish, Validate};

fn noop_waker() -> Waker {
    fn clone(_: *const ()) -> RawWaker {
        RawWaker::new(std::ptr::null(), &VTABLE)
    }
    fn noop(_: *const ()) {}
    static VTABLE: RawWakerVTable = RawWakerVTable::new(clone, noop, noop, noop);
    unsafe { Waker::from_raw(RawWaker::new(std::ptr::null(), &VTABLE)) }
}

/// The plugin functions are `async` but never wait on anything: poll to completion.
fn block_on<F: Future>(mut fut: F) -> Option<F::Output> {
    let waker = noop_waker();
    let mut cx = Context::from_waker(&waker);
    let mut fut = unsafe { Pin::new_unchecked(&mut fut) };
    for _ in 0..10_000 {
        if let Poll::Ready(v) = fut.as_mut().poll(&mut cx) {
            return Some(v);
        }
    }
    None
}

fn message_with(key: &str, v: Value) -> Message {
    let mut message = Message::from_value(&json!({}));
    message.data_mut().as_object_mut().unwrap().insert(key.to_string(), v);
    message.invalidate_context_cache();
    message
}

pub fn run_plugin(op: &str, item: &Value) -> Value {
    let dl = Arc::new(DataLogic::new());
    match op {
        "plugin_validate" => {
            let mut message = message_with("mt", json!(item["text"].as_str().unwrap_or("")));
            let config = FunctionConfig::Custom { name: "validate_mt".to_string(), input: json!({"source": "mt", "target": "validation_result"}) };
            match block_on(Validate.execute(&mut message, &config, dl)) {
                Some(Ok((status, _))) => {
                    let r = message.data().get("validation_result").cloned().unwrap_or(Value::Null);
                    json!({"ok": true, "status": status, "valid": r.get("valid").cloned().unwrap_or(Value::Null),
                           "errors": r.get("errors").cloned().unwrap_or(Value::Null), "message_type": r.get("message_type").cloned().unwrap_or(Value::Null)})
                }
                Some(Err(e)) => json!({"ok": false, "error": e.to_string()}),
                None => json!({"ok": false, "error": "future did not complete"}),
            }
        }
        "plugin_parse" => {
            let mut message = message_with("mt", json!(item["text"].as_str().unwrap_or("")));
            let config = FunctionConfig::Custom { name: "parse_mt".to_string(), input: json!({"source": "mt", "target": "parsed"}) };
            match block_on(Parse.execute(&mut message, &config, dl)) {
                Some(Ok((status, _))) => {
                    let meta = message.metadata().get("parsed").cloned().unwrap_or(Value::Null);
                    let data = message.data().get("parsed").cloned().unwrap_or(Value::Null);
                    json!({"ok": true, "status": status, "method": meta.get("method").cloned().unwrap_or(Value::Null),
                           "message_type": meta.get("message_type").cloned().unwrap_or(Value::Null), "meta": meta, "data": data})
                }
                Some(Err(e)) => json!({"ok": false, "error": e.to_string()}),
                None => json!({"ok": false, "error": "future did not complete"}),
            }
        }
        "plugin_publish" => {
            let mut message = message_with("doc", item["json"].clone());
            let config = FunctionConfig::Custom { name: "publish_mt".to_string(), input: json!({"source": "doc", "target": "mt"}) };
            match block_on(Publish.execute(&mut message, &config, dl)) {
                Some(Ok((status, _))) => json!({"ok": true, "status": status, "mt": message.data().get("mt").cloned().unwrap_or(Value::Null)}),
                Some(Err(e)) => json!({"ok": false, "error": e.to_string()}),
                None => json!({"ok": false, "error": "future did not complete"}),
            }
        }
        _ => json!({"error": "unknown plugin op"}),
    }
}
