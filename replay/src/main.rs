//! Native replayer (E3). `swiftmt-replay harness <name> <witness.json>` runs the shared harness
//! body against the real library with the concrete values of a solver witness.
//! `swiftmt-replay <subcommand> ...` exposes direct drivers of the public API for E2 witnesses.
#![allow(dead_code, unused_imports, unused_macros)]
#[path = "../../harness/mod.rs"]
pub mod harness;
mod registry;
mod api;
mod api_gen;
mod plugin;

use std::panic;

fn run_harness(name: &str, vals: Vec<Vec<u8>>) -> serde_json::Value {
    let f = match registry::lookup(name) {
        Some(f) => f,
        None => return serde_json::json!({"outcome": "unknown-harness"}),
    };
    harness::rt::native::load(vals);
    let r = panic::catch_unwind(f);
    let covers: Vec<String> =
        harness::rt::native::COVERS.with(|c| c.borrow().iter().map(|s| s.to_string()).collect());
    match r {
        Ok(()) => serde_json::json!({"outcome": "pass", "covers": covers}),
        Err(p) => {
            let msg = if let Some(s) = p.downcast_ref::<String>() {
                s.clone()
            } else if let Some(s) = p.downcast_ref::<&str>() {
                s.to_string()
            } else {
                "<non-string panic>".to_string()
            };
            let outcome = if let Some(id) = msg.strip_prefix("VASSERT:") {
                serde_json::json!({"outcome": "vassert", "id": id})
            } else if msg.starts_with("REPLAY-ASSUME") {
                serde_json::json!({"outcome": "assume"})
            } else if msg.starts_with("REPLAY-DESYNC") {
                serde_json::json!({"outcome": "desync", "msg": msg})
            } else {
                serde_json::json!({"outcome": "panic", "msg": msg})
            };
            let mut o = outcome;
            o["covers"] = serde_json::json!(covers);
            o
        }
    }
}

fn main() {
    // keep panic messages out of stderr noise but capture location
    panic::set_hook(Box::new(|_| {}));
    let args: Vec<String> = std::env::args().collect();
    if args.len() < 2 {
        eprintln!("usage: swiftmt-replay harness <name> <witness.json> | batch <file.json> | api ...");
        std::process::exit(2);
    }
    match args[1].as_str() {
        "harness" => {
            let text = std::fs::read_to_string(&args[3]).expect("witness file");
            let v: serde_json::Value = serde_json::from_str(&text).expect("json");
            let vals: Vec<Vec<u8>> = serde_json::from_value(v["vals"].clone()).expect("vals");
            let out = run_harness(&args[2], vals);
            println!("{}", out);
        }
        // batch: [{"harness": name, "vals": [[..],..]}, ...] -> [outcome,...]
        "batch" => {
            let text = std::fs::read_to_string(&args[2]).expect("batch file");
            let v: serde_json::Value = serde_json::from_str(&text).expect("json");
            let mut outs = Vec::new();
            for item in v.as_array().expect("array") {
                if let Some(h) = item.get("harness").and_then(|h| h.as_str()) {
                    let vals: Vec<Vec<u8>> =
                        serde_json::from_value(item["vals"].clone()).expect("vals");
                    outs.push(run_harness(h, vals));
                } else {
                    let item2 = item.clone();
                    let r = panic::catch_unwind(move || api::run(&item2));
                    outs.push(match r {
                        Ok(v) => v,
                        Err(p) => {
                            let msg = if let Some(s) = p.downcast_ref::<String>() {
                                s.clone()
                            } else if let Some(s) = p.downcast_ref::<&str>() {
                                s.to_string()
                            } else {
                                "<non-string panic>".to_string()
                            };
                            serde_json::json!({"panic": msg})
                        }
                    });
                }
            }
            println!("{}", serde_json::Value::Array(outs));
        }
        _ => {
            eprintln!("unknown subcommand");
            std::process::exit(2);
        }
    }
}
