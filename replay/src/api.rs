//! Direct drivers of the public API for E2 (source-level) witnesses.
use serde_json::{json, Value};
use swift_mt_message::errors::ParseError;
use swift_mt_message::parser::SwiftParser;
use swift_mt_message::traits::{SwiftField, SwiftMessageBody};

pub fn err_json(e: &ParseError) -> Value {
    let display = e.to_string();
    match serde_json::to_value(e) {
        Ok(v) => json!({"err": v, "display": display}),
        Err(_) => json!({"err": null, "display": display}),
    }
}

pub fn run_field<T: SwiftField + serde::Serialize>(content: &str, variant: Option<&str>) -> Value {
    let r = match variant {
        Some(v) => T::parse_with_variant(content, Some(v), None),
        None => T::parse(content),
    };
    match r {
        Ok(f) => {
            let swift = f.to_swift_string();
            let j = serde_json::to_value(&f).unwrap_or(Value::Null);
            // second pass: re-parse what was emitted (content after the tag)
            json!({"ok": true, "swift": swift, "json": j})
        }
        Err(e) => {
            let mut v = err_json(&e);
            v["ok"] = json!(false);
            v
        }
    }
}

pub fn run_field_json<T: SwiftField + serde::Serialize + serde::de::DeserializeOwned>(j: &Value) -> Value {
    match serde_json::from_value::<T>(j.clone()) {
        Ok(f) => json!({"ok": true, "swift": f.to_swift_string()}),
        Err(e) => json!({"ok": false, "de_error": e.to_string()}),
    }
}

/// content -> value -> text -> value -> text
pub fn run_field_roundtrip<T: SwiftField + serde::Serialize + std::fmt::Debug>(content: &str) -> Value {
    let v = match T::parse(content) {
        Ok(v) => v,
        Err(e) => return json!({"ok": false, "display": e.to_string()}),
    };
    let swift = v.to_swift_string();
    // content after ":TAG:"
    let body = match swift[1..].find(':') {
        Some(i) => &swift[i + 2..],
        None => "",
    };
    match T::parse(body) {
        Ok(v2) => {
            let swift2 = v2.to_swift_string();
            json!({"ok": true, "swift": swift, "reparse_ok": true, "swift2": swift2,
                   "same_value": format!("{:?}", v) == format!("{:?}", v2)})
        }
        Err(e) => json!({"ok": true, "swift": swift, "reparse_ok": false, "reparse_error": e.to_string()}),
    }
}

/// MT content -> value -> JSON -> value: is the value unchanged by the JSON round trip?
pub fn run_codec_roundtrip<T: SwiftField + serde::Serialize + serde::de::DeserializeOwned + std::fmt::Debug>(content: &str) -> Value {
    let v = match T::parse(content) {
        Ok(v) => v,
        Err(e) => return json!({"ok": false, "parse_error": e.to_string()}),
    };
    let j = match serde_json::to_value(&v) {
        Ok(j) => j,
        Err(e) => return json!({"ok": false, "ser_error": e.to_string()}),
    };
    match serde_json::from_value::<T>(j.clone()) {
        Ok(v2) => {
            let same = format!("{:?}", v) == format!("{:?}", v2);
            json!({"ok": true, "same": same, "json": j, "before": format!("{:?}", v), "after": format!("{:?}", v2),
                   "swift_before": v.to_swift_string(), "swift_after": v2.to_swift_string()})
        }
        Err(e) => json!({"ok": true, "same": false, "json": j, "de_error": e.to_string()}),
    }
}

pub fn run_block4<T: SwiftMessageBody + serde::Serialize>(text: &str) -> Value {
    match T::parse_from_block4(text) {
        Ok(m) => {
            let mt = m.to_mt_string();
            let j = serde_json::to_value(&m).unwrap_or(Value::Null);
            // round trip
            let again = match T::parse_from_block4(&mt) {
                Ok(m2) => {
                    let mt2 = m2.to_mt_string();
                    let j2 = serde_json::to_value(&m2).unwrap_or(Value::Null);
                    json!({"ok": true, "mt": mt2, "same_json": j2 == j})
                }
                Err(e) => {
                    let mut v = err_json(&e);
                    v["ok"] = json!(false);
                    v
                }
            };
            json!({"ok": true, "mt": mt, "json": j, "reparse": again})
        }
        Err(e) => {
            let mut v = err_json(&e);
            v["ok"] = json!(false);
            v
        }
    }
}

pub fn run_validate<T: SwiftMessageBody + serde::Serialize>(text: &str) -> Value {
    match T::parse_from_block4(text) {
        Ok(m) => {
            let all: Vec<String> = m.validate_network_rules(false).iter().map(|e| e.error_code().to_string()).collect();
            let first: Vec<String> = m.validate_network_rules(true).iter().map(|e| e.error_code().to_string()).collect();
            json!({"ok": true, "codes": all, "first": first})
        }
        Err(e) => {
            let mut v = err_json(&e);
            v["ok"] = json!(false);
            v
        }
    }
}

/// Build the message from its serde JSON form and run the validation entry points on it.
pub fn run_validate_json<T: SwiftMessageBody + serde::Serialize + serde::de::DeserializeOwned + Clone + PartialEq + std::fmt::Debug>(
    j: &Value,
) -> Value {
    match serde_json::from_value::<T>(j.clone()) {
        Ok(m) => {
            let before = m.clone();
            let all: Vec<String> = m.validate_network_rules(false).iter().map(|e| e.error_code().to_string()).collect();
            let first: Vec<String> = m.validate_network_rules(true).iter().map(|e| e.error_code().to_string()).collect();
            // re-validation: repeated, because an order that depends on a randomly seeded hasher shows only sometimes
            let reference = format!("{:?}", m.validate_network_rules(false));
            let mut again: Vec<String> = all.clone();
            let mut again_detail = Value::Null;
            for _ in 0..48 {
                let errs = m.validate_network_rules(false);
                let codes: Vec<String> = errs.iter().map(|e| e.error_code().to_string()).collect();
                let dbg = format!("{:?}", errs);
                if codes != all {
                    again = codes;
                    break;
                }
                if dbg != reference && again_detail.is_null() {
                    again_detail = json!([reference.clone(), dbg]);
                }
            }
            let mut first_unstable = Value::Null;
            for _ in 0..48 {
                let f: Vec<String> = m.validate_network_rules(true).iter().map(|e| e.error_code().to_string()).collect();
                let a: Vec<String> = m.validate_network_rules(false).iter().map(|e| e.error_code().to_string()).collect();
                if f.is_empty() != a.is_empty() || f.len() > a.len() || f[..] != a[..f.len()] {
                    first_unstable = json!({"first": f, "full": a});
                    break;
                }
            }
            json!({"ok": true, "codes": all, "first": first, "again": again, "again_detail": again_detail, "first_unstable": first_unstable,
                   "unchanged": before == m, "mt": m.to_mt_string()})
        }
        Err(e) => json!({"ok": false, "de_error": e.to_string()}),
    }
}

pub trait Classify {
    fn classify(&self) -> Value;
}
impl Classify for swift_mt_message::messages::MT103 {
    fn classify(&self) -> Value {
        json!({"ok": true, "reject": self.has_reject_codes(), "return": self.has_return_codes(), "stp": self.is_stp_compliant()})
    }
}
impl Classify for swift_mt_message::messages::MT202 {
    fn classify(&self) -> Value {
        json!({"ok": true, "reject": self.has_reject_codes(), "return": self.has_return_codes(), "cover": self.is_cover_message()})
    }
}
impl Classify for swift_mt_message::messages::MT205 {
    fn classify(&self) -> Value {
        json!({"ok": true, "reject": self.has_reject_codes(), "return": self.has_return_codes(), "cover": self.is_cover_message()})
    }
}
pub fn run_classify_json<T: Classify + serde::de::DeserializeOwned>(j: &Value) -> Value {
    match serde_json::from_value::<T>(j.clone()) {
        Ok(m) => m.classify(),
        Err(e) => json!({"ok": false, "de_error": e.to_string()}),
    }
}

/// Message-level classification: body from its JSON form, user header from JSON, fixed blocks 1/2.
pub fn run_classify_message_json<T: SwiftMessageBody + serde::Serialize + serde::de::DeserializeOwned + Clone + std::fmt::Debug>(
    j: &Value,
    uh: &Value,
) -> Value {
    let body = match serde_json::from_value::<T>(j.clone()) {
        Ok(m) => m,
        Err(e) => return json!({"ok": false, "de_error": e.to_string()}),
    };
    let user_header = if uh.is_null() {
        None
    } else {
        match serde_json::from_value::<swift_mt_message::headers::UserHeader>(uh.clone()) {
            Ok(h) => Some(h),
            Err(e) => return json!({"ok": false, "de_error": format!("user header: {}", e)}),
        }
    };
    let basic = match swift_mt_message::headers::BasicHeader::parse("F01BANKBEBBAXXX0000000000") {
        Ok(b) => b,
        Err(e) => return json!({"ok": false, "de_error": format!("basic header: {}", e)}),
    };
    let app = match swift_mt_message::headers::ApplicationHeader::parse(&format!("I{}BANKDEFFXXXXN", T::message_type())) {
        Ok(a) => a,
        Err(e) => return json!({"ok": false, "de_error": format!("application header: {}", e)}),
    };
    let msg = swift_mt_message::SwiftMessage {
        basic_header: basic,
        application_header: app,
        user_header,
        trailer: None,
        message_type: T::message_type().to_string(),
        fields: body,
    };
    json!({"ok": true, "reject": msg.has_reject_codes(), "return": msg.has_return_codes(), "cover": msg.is_cover_message(), "stp": msg.is_stp_message()})
}

/// Full message text through the typed parser and back.
pub fn run_full<T: SwiftMessageBody + serde::Serialize + Clone + std::fmt::Debug + serde::de::DeserializeOwned>(text: &str) -> Value
where
    T: 'static,
{
    match SwiftParser::parse::<T>(text) {
        Ok(m) => {
            let mt = m.to_mt_message();
            json!({"ok": true, "mt": mt})
        }
        Err(e) => {
            let mut v = err_json(&e);
            v["ok"] = json!(false);
            v
        }
    }
}

pub fn run(item: &Value) -> Value {
    let op = item["op"].as_str().unwrap_or("");
    let ty = item["type"].as_str().unwrap_or("");
    match op {
        "field" => {
            let content = item["content"].as_str().unwrap_or("");
            let variant = item["variant"].as_str();
            crate::api_gen::field(ty, content, variant).unwrap_or(json!({"error": "unknown field type"}))
        }
        "header_roundtrip" => {
            let text = item["text"].as_str().unwrap_or("");
            match ty {
                "BasicHeader" => match swift_mt_message::headers::BasicHeader::parse(text) {
                    Ok(h) => {
                        let t = h.to_string();
                        let (eq, t2) = match swift_mt_message::headers::BasicHeader::parse(&t) {
                            Ok(h2) => (h2 == h, h2.to_string()),
                            Err(_) => (false, String::new()),
                        };
                        json!({"ok": true, "text": t, "reparse_equal": eq, "text2": t2})
                    }
                    Err(e) => json!({"ok": false, "display": e.to_string()}),
                },
                "ApplicationHeader" => match swift_mt_message::headers::ApplicationHeader::parse(text) {
                    Ok(h) => {
                        let t = h.to_string();
                        let (eq, t2) = match swift_mt_message::headers::ApplicationHeader::parse(&t) {
                            Ok(h2) => (h2 == h, h2.to_string()),
                            Err(_) => (false, String::new()),
                        };
                        json!({"ok": true, "text": t, "reparse_equal": eq, "text2": t2})
                    }
                    Err(e) => json!({"ok": false, "display": e.to_string()}),
                },
                "UserHeader" => match swift_mt_message::headers::UserHeader::parse(text) {
                    Ok(h) => {
                        let t = h.to_string();
                        let (eq, t2) = match swift_mt_message::headers::UserHeader::parse(&t) {
                            Ok(h2) => (h2 == h, h2.to_string()),
                            Err(_) => (false, String::new()),
                        };
                        json!({"ok": true, "text": t, "reparse_equal": eq, "text2": t2})
                    }
                    Err(e) => json!({"ok": false, "display": e.to_string()}),
                },
                "UserHeader" => match swift_mt_message::headers::UserHeader::parse(text) {
                    Ok(h) => {
                        let t = h.to_string();
                        let eq = swift_mt_message::headers::UserHeader::parse(&t).map(|h2| h2 == h).unwrap_or(false);
                        json!({"ok": true, "text": t, "reparse_equal": eq})
                    }
                    Err(e) => json!({"ok": false, "display": e.to_string()}),
                },
                "Trailer" => match swift_mt_message::headers::Trailer::parse(text) {
                    Ok(h) => {
                        let t = h.to_string();
                        let eq = swift_mt_message::headers::Trailer::parse(&t).map(|h2| h2 == h).unwrap_or(false);
                        json!({"ok": true, "text": t, "reparse_equal": eq})
                    }
                    Err(e) => json!({"ok": false, "display": e.to_string()}),
                },
                _ => json!({"error": "unknown header type"}),
            }
        }
        "header_json" => {
            let j = &item["json"];
            match ty {
                "UserHeader" => match serde_json::from_value::<swift_mt_message::headers::UserHeader>(j.clone()) {
                    Ok(h) => {
                        let text = h.to_string();
                        let back = swift_mt_message::headers::UserHeader::parse(&text).map(|h2| h2 == h).unwrap_or(false);
                        json!({"ok": true, "text": text, "reparse_equal": back})
                    }
                    Err(e) => json!({"ok": false, "de_error": e.to_string()}),
                },
                "Trailer" => match serde_json::from_value::<swift_mt_message::headers::Trailer>(j.clone()) {
                    Ok(h) => {
                        let text = h.to_string();
                        let back = swift_mt_message::headers::Trailer::parse(&text).map(|h2| h2 == h).unwrap_or(false);
                        json!({"ok": true, "text": text, "reparse_equal": back})
                    }
                    Err(e) => json!({"ok": false, "de_error": e.to_string()}),
                },
                _ => json!({"error": "unknown header type"}),
            }
        }
        "field_json" => crate::api_gen::field_json(ty, &item["json"]).unwrap_or(json!({"error": "unknown field type"})),
        "field_roundtrip" => crate::api_gen::field_roundtrip(ty, item["content"].as_str().unwrap_or("")).unwrap_or(json!({"error": "unknown field type"})),
        "codec_roundtrip" => crate::api_gen::codec_roundtrip(ty, item["content"].as_str().unwrap_or("")).unwrap_or(json!({"error": "unknown field type"})),
        "block4" => crate::api_gen::block4(ty, item["text"].as_str().unwrap_or("")).unwrap_or(json!({"error": "unknown message type"})),
        "validate" => crate::api_gen::validate(ty, item["text"].as_str().unwrap_or("")).unwrap_or(json!({"error": "unknown message type"})),
        "classify_message_json" => crate::api_gen::classify_message_json(ty, &item["json"], &item["user_header"]).unwrap_or(json!({"error": "unknown message type"})),
        "classify_json" => crate::api_gen::classify_json(ty, &item["json"]).unwrap_or(json!({"error": "unknown message type"})),
        "validate_json" => crate::api_gen::validate_json(ty, &item["json"]).unwrap_or(json!({"error": "unknown message type"})),
        "full" => crate::api_gen::full(ty, item["text"].as_str().unwrap_or("")).unwrap_or(json!({"error": "unknown message type"})),
        "tracker" => {
            // one tag ("20") with occurrences V0, V1, ... at the given positions; mark the listed positions in the given order
            let ps: Vec<usize> = item["positions"].as_array().map(|a| a.iter().filter_map(|v| v.as_u64().map(|x| x as usize)).collect()).unwrap_or_default();
            let marks: Vec<usize> = item["marks"].as_array().map(|a| a.iter().filter_map(|v| v.as_u64().map(|x| x as usize)).collect()).unwrap_or_default();
            let values: Vec<(String, usize)> = ps.iter().enumerate().map(|(k, p)| (format!("V{}", k), *p)).collect();
            let mut t = swift_mt_message::parser::FieldConsumptionTracker::new();
            t.mark_consumed("21", ps.first().copied().unwrap_or(0));
            for p in marks {
                t.mark_consumed("20", p);
            }
            match t.get_next_available("20", &values) {
                Some((v, p)) => json!({"ok": true, "next": [v, p]}),
                None => json!({"ok": true, "next": Value::Null}),
            }
        }
        "split_sequences" => {
            // fields: [[tag, value, stamp]...] -> FieldMap; config from marker / c_fields / has_c
            use swift_mt_message::parser::sequence_parser::{FieldMap, SequenceConfig, split_into_sequences};
            let mut fm: FieldMap = FieldMap::new();
            for f in item["fields"].as_array().cloned().unwrap_or_default() {
                fm.entry(f[0].as_str().unwrap_or("").to_string())
                    .or_default()
                    .push((f[1].as_str().unwrap_or("").to_string(), f[2].as_u64().unwrap_or(0) as usize));
            }
            let cfg = SequenceConfig {
                sequence_b_marker: item["marker"].as_str().unwrap_or("21").to_string(),
                sequence_c_fields: item["c_fields"].as_array().map(|a| a.iter().filter_map(|v| v.as_str().map(|s| s.to_string())).collect()).unwrap_or_default(),
                has_sequence_c: item["has_c"].as_bool().unwrap_or(false),
            };
            let dump = |m: &FieldMap| {
                let mut v: Vec<Value> = Vec::new();
                for (k, vals) in m {
                    for (s, p) in vals {
                        v.push(json!([k, s, p]));
                    }
                }
                v.sort_by_key(|x| x[2].as_u64().unwrap_or(0));
                v
            };
            match split_into_sequences(&fm, &cfg) {
                Ok(ps) => json!({"ok": true, "a": dump(&ps.sequence_a), "b": dump(&ps.sequence_b), "c": dump(&ps.sequence_c)}),
                Err(e) => json!({"ok": false, "display": e.to_string()}),
            }
        }
        "repetitive_sequence" => {
            use swift_mt_message::parser::sequence_parser::{FieldMap, parse_repetitive_sequence};
            let mut fm: FieldMap = FieldMap::new();
            for f in item["fields"].as_array().cloned().unwrap_or_default() {
                fm.entry(f[0].as_str().unwrap_or("").to_string())
                    .or_default()
                    .push((f[1].as_str().unwrap_or("").to_string(), f[2].as_u64().unwrap_or(0) as usize));
            }
            match parse_repetitive_sequence::<swift_mt_message::messages::MT101>(&fm, item["marker"].as_str().unwrap_or("21")) {
                Ok(items) => {
                    let out: Vec<Value> = items
                        .iter()
                        .map(|m| {
                            let mut v: Vec<Value> = Vec::new();
                            for (k, vals) in m {
                                for (s, p) in vals {
                                    v.push(json!([k, s, p]));
                                }
                            }
                            v.sort_by_key(|x| x[2].as_u64().unwrap_or(0));
                            json!(v)
                        })
                        .collect();
                    json!({"ok": true, "items": out})
                }
                Err(e) => json!({"ok": false, "display": e.to_string()}),
            }
        }
        "block4_fields" => {
            let text = item["text"].as_str().unwrap_or("");
            match swift_mt_message::parser::parse_block4_fields(text) {
                Ok(m) => {
                    let mut o = serde_json::Map::new();
                    for (k, v) in m {
                        o.insert(k, json!(v.iter().map(|(s, p)| json!([s, p])).collect::<Vec<_>>()));
                    }
                    json!({"ok": true, "fields": o})
                }
                Err(e) => json!({"ok": false, "display": e.to_string()}),
            }
        }
        "extract_block" => {
            let text = item["text"].as_str().unwrap_or("");
            let k = item["block"].as_u64().unwrap_or(0) as u8;
            match SwiftParser::extract_block(text, k) {
                Ok(b) => json!({"ok": true, "block": b}),
                Err(e) => json!({"ok": false, "display": e.to_string()}),
            }
        }
        "plugin_validate" | "plugin_parse" | "plugin_publish" => crate::plugin::run_plugin(op, item),
        "auto" => {
            // auto-detecting parse + the wrapper's validate(), for comparison with the typed API and the plugins
            let text = item["text"].as_str().unwrap_or("");
            match SwiftParser::parse_auto(text) {
                Ok(p) => {
                    let v = p.validate();
                    json!({"ok": true, "message_type": p.message_type(), "is_valid": v.is_valid, "n_errors": v.errors.len()})
                }
                Err(e) => {
                    let mut v = err_json(&e);
                    v["ok"] = json!(false);
                    v
                }
            }
        }
        "types" => json!({"fields": crate::api_gen::FIELD_TYPES, "messages": crate::api_gen::MESSAGE_TYPES}),
        _ => json!({"error": format!("unknown op {}", op)}),
    }
}
