//! Direct drivers of the public API for E2 (source-level) witnesses.
use serde_json::{json, Value};
use swift_mt_message::errors::ParseError;
use swift_mt_message::parser::SwiftParser;
use swift_mt_message::traits::{SwiftField, SwiftMessageBody};

pub fn err_json(e: &ParseError) -> Value {
    let display = e.to_string();
    match serde_json::to_value(e) {
        Ok(v) => json!({"err": v, "display": display}),
        Err(_) => json!({"err": null, "display": display}),
    }
}

pub fn run_field<T: SwiftField + serde::Serialize>(content: &str, variant: Option<&str>) -> Value {
    let r = match variant {
        Some(v) => T::parse_with_variant(content, Some(v), None),
        None => T::parse(content),
    };
    match r {
        Ok(f) => {
            let swift = f.to_swift_string();
            let j = serde_json::to_value(&f).unwrap_or(Value::Null);
            // second pass: re-parse what was emitted (content after the tag)
            json!({"ok": true, "swift": swift, "json": j})
        }
        Err(e) => {
            let mut v = err_json(&e);
            v["ok"] = json!(false);
            v
        }
    }
}

pub fn run_block4<T: SwiftMessageBody + serde::Serialize>(text: &str) -> Value {
    match T::parse_from_block4(text) {
        Ok(m) => {
            let mt = m.to_mt_string();
            let j = serde_json::to_value(&m).unwrap_or(Value::Null);
            // round trip
            let again = match T::parse_from_block4(&mt) {
                Ok(m2) => {
                    let mt2 = m2.to_mt_string();
                    let j2 = serde_json::to_value(&m2).unwrap_or(Value::Null);
                    json!({"ok": true, "mt": mt2, "same_json": j2 == j})
                }
                Err(e) => {
                    let mut v = err_json(&e);
                    v["ok"] = json!(false);
                    v
                }
            };
            json!({"ok": true, "mt": mt, "json": j, "reparse": again})
        }
        Err(e) => {
            let mut v = err_json(&e);
            v["ok"] = json!(false);
            v
        }
    }
}

pub fn run_validate<T: SwiftMessageBody + serde::Serialize>(text: &str) -> Value {
    match T::parse_from_block4(text) {
        Ok(m) => {
            let all: Vec<String> = m.validate_network_rules(false).iter().map(|e| e.error_code().to_string()).collect();
            let first: Vec<String> = m.validate_network_rules(true).iter().map(|e| e.error_code().to_string()).collect();
            json!({"ok": true, "codes": all, "first": first})
        }
        Err(e) => {
            let mut v = err_json(&e);
            v["ok"] = json!(false);
            v
        }
    }
}

/// Full message text through the typed parser and back.
pub fn run_full<T: SwiftMessageBody + serde::Serialize + Clone + std::fmt::Debug + serde::de::DeserializeOwned>(text: &str) -> Value
where
    T: 'static,
{
    match SwiftParser::parse::<T>(text) {
        Ok(m) => {
            let mt = m.to_mt_message();
            json!({"ok": true, "mt": mt})
        }
        Err(e) => {
            let mut v = err_json(&e);
            v["ok"] = json!(false);
            v
        }
    }
}

pub fn run(item: &Value) -> Value {
    let op = item["op"].as_str().unwrap_or("");
    let ty = item["type"].as_str().unwrap_or("");
    match op {
        "field" => {
            let content = item["content"].as_str().unwrap_or("");
            let variant = item["variant"].as_str();
            crate::api_gen::field(ty, content, variant).unwrap_or(json!({"error": "unknown field type"}))
        }
        "block4" => crate::api_gen::block4(ty, item["text"].as_str().unwrap_or("")).unwrap_or(json!({"error": "unknown message type"})),
        "validate" => crate::api_gen::validate(ty, item["text"].as_str().unwrap_or("")).unwrap_or(json!({"error": "unknown message type"})),
        "full" => crate::api_gen::full(ty, item["text"].as_str().unwrap_or("")).unwrap_or(json!({"error": "unknown message type"})),
        "types" => json!({"fields": crate::api_gen::FIELD_TYPES, "messages": crate::api_gen::MESSAGE_TYPES}),
        _ => json!({"error": format!("unknown op {}", op)}),
    }
}
