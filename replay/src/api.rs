//! Direct drivers of the public API for E2 (source-level) witnesses.
use serde_json::{json, Value};

pub fn run(item: &Value) -> Value {
    let op = item["op"].as_str().unwrap_or("");
    match op {
        _ => json!({"error": format!("unknown op {}", op)}),
    }
}
