#!/bin/bash
# Offline setup: warm the build caches the checks use (all of them are rebuilt from /repo's current
# tree by cargo's fingerprinting on every check run; this only saves the first-build latency).
set -u
export CARGO_NET_OFFLINE=true
SCRATCH="${VERIF_SCRATCH:-/var/tmp/swiftmt-verif}"
mkdir -p "$SCRATCH/tmp"
cd "$(dirname "$0")"
python3 - <<'PY'
import sys, os
sys.path.insert(0, os.path.join(os.getcwd(), "lib"))
import common, kanirun
kanirun.prepare()
common.sync_lock(os.path.join(common.VERIF, "replay"))
if os.path.isdir(os.path.join(common.VERIF, "mtsym", "extract")):
    common.sync_lock(os.path.join(common.VERIF, "mtsym", "extract"))
PY
( cd kani && cargo kani -Z stubbing -Z unstable-options --only-codegen --target-dir "$SCRATCH/kani-main" >"$SCRATCH/tmp/setup-kani.log" 2>&1 ) &
( cd replay && cargo build --target-dir "$SCRATCH/replay-target" >"$SCRATCH/tmp/setup-replay.log" 2>&1 && cargo build --release --target-dir "$SCRATCH/replay-target" >>"$SCRATCH/tmp/setup-replay.log" 2>&1 ) &
if [ -d mtsym/extract ]; then
( cd mtsym/extract && cargo build --release --target-dir "$SCRATCH/mtsym-target" >"$SCRATCH/tmp/setup-mtsym.log" 2>&1 ) &
fi
wait
echo "setup done"
exit 0
