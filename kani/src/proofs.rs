//! Kani entry points: one `#[kani::proof]` per shared harness body.
use crate::harness;
use crate::stubs;

macro_rules! proof {
    ($name:ident, $unwind:expr, $body:path) => {
        #[kani::proof]
        #[kani::unwind($unwind)]
        #[kani::stub(core::slice::memchr::memchr, stubs::memchr_naive)]
        #[kani::stub(core::slice::memchr::memrchr, stubs::memrchr_naive)]
        #[kani::stub(core::unicode::unicode_data::alphabetic::lookup, stubs::unicode_lookup_nondet)]
        #[kani::stub(core::unicode::unicode_data::n::lookup, stubs::unicode_lookup_nondet)]
        #[kani::stub(core::unicode::unicode_data::uppercase::lookup, stubs::unicode_lookup_nondet)]
        #[kani::stub(core::unicode::unicode_data::lowercase::lookup, stubs::unicode_lookup_nondet)]
        #[kani::stub(core::unicode::unicode_data::white_space::lookup, stubs::unicode_lookup_nondet)]
        #[kani::stub(alloc::fmt::format, stubs::format_empty)]
        fn $name() {
            $body()
        }
    };
}

proof!(c11_date_yymmdd, 8, harness::c11::date_yymmdd);
proof!(c11_date_yymmdd_len, 10, harness::c11::date_yymmdd_len);
proof!(c11_date_yymmdd_utf8, 8, harness::c11::date_yymmdd_utf8);
proof!(c11_time_hhmm, 8, harness::c11::time_hhmm);
proof!(c11_time_hhmm_utf8, 8, harness::c11::time_hhmm_utf8);
