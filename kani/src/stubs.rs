//! Performance stubs for std internals (see DESIGN.md §2.1). Every stub is either
//! semantics-preserving (memchr/memrchr) or an over-approximation (Unicode tables
//! answer nondeterministically for non-ASCII code points; the ASCII fast paths of
//! `char::is_*` never reach these functions).

pub fn memchr_naive(x: u8, text: &[u8]) -> Option<usize> {
    let mut i = 0;
    while i < text.len() {
        if text[i] == x {
            return Some(i);
        }
        i += 1;
    }
    None
}

pub fn memrchr_naive(x: u8, text: &[u8]) -> Option<usize> {
    let mut i = text.len();
    while i > 0 {
        i -= 1;
        if text[i] == x {
            return Some(i);
        }
    }
    None
}

pub fn unicode_lookup_nondet(_c: char) -> bool {
    kani::any::<u16>() & 1 == 1
}

/// `alloc::fmt::format` replacement for harnesses in which `format!` is reached only
/// to build error-message text.
pub fn format_empty(_args: core::fmt::Arguments<'_>) -> String {
    String::new()
}

pub fn eprint_nop(_args: core::fmt::Arguments<'_>) {}


/// `RandomState::new()` with fixed keys (HashSet/HashMap iteration order is never observed by the
/// properties checked; SipHash itself still runs).
pub fn random_state_fixed() -> std::hash::RandomState {
    unsafe { core::mem::transmute::<(u64, u64), std::hash::RandomState>((1u64, 2u64)) }
}

/// `<f64 as FromStr>::from_str` model for harnesses in which the amount value is irrelevant (the
/// amount text is a concrete valid constant in those harnesses): always Ok(1.0).
pub fn f64_from_str_model(_s: &str) -> Result<f64, core::num::ParseFloatError> {
    Ok(1.0)
}
