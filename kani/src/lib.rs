#![allow(dead_code, unused_imports, unused_macros)]
#[path = "../../harness/mod.rs"]
pub mod harness;
#[cfg(kani)]
pub mod stubs;
#[cfg(kani)]
mod proofs;
