"""E2 small checkers shared by several properties: field serialiser templates / JSON codecs (fieldser),
header tag sets (hdrcheck)."""
import json

import e2rules
from common import EXIT_INCONCLUSIVE, EXIT_OK, EXIT_VIOLATION, load_known_findings, log, write_replay_file
from e1 import combine


def _handle(prop, engine, results, ev, key_of):
    rc = EXIT_OK
    known = {k["key"]: k for k in load_known_findings().get("findings", []) if k.get("engine") == engine and prop in k.get("properties", [k.get("property")])}
    for r in results:
        v = r["verdict"]
        ev.add_query(engine="mtsym/z3", name="%s:%s" % (r["type"], r["query"]), bound=r.get("bound", ""), verdict=v, time_s=r.get("time_s", 0),
                     states=1, transitions=1, nontrivial=True)
        if v == "unsat":
            continue
        if v == "sat":
            ev.replayed += 1
            w = r.get("witness") or {}
            k = known.get(key_of(r))
            if k is not None:
                print("KNOWN-FINDING: property=%s %s: %s" % (prop, k["key"], k["description"]), flush=True)
                ev.known.append({"key": k["key"], "why": w.get("why")})
                continue
            path = write_replay_file(prop, {"property": prop, "engine": engine, "type": r["type"], "query": r["query"], "witness": w})
            ev.samples.append({"type": r["type"], "query": r["query"], "witness": w})
            ev.violations += 1
            print("VIOLATION property=%s replay=%s" % (prop, path), flush=True)
            log("   %s %s :: %s" % (r["type"], r["query"], w.get("why")))
            rc = combine(rc, EXIT_VIOLATION)
        else:
            log("[%s] %s %s: %s %s" % (engine, r["type"], r["query"], v, str(r.get("detail", ""))[:300]))
            ev.not_encoded.append("%s %s: %s %s" % (r["type"], r["query"], v, str(r.get("detail", ""))[:200]))
            rc = combine(rc, EXIT_INCONCLUSIVE)
    return rc


def run_fieldser(prop, ev, which):
    """which: 'templates', 'codecs' or both"""
    results = e2rules._run("fieldser", "run", {})
    if which == "templates":
        results = [r for r in results if "codec" not in r["query"].lower()]
    elif which == "codecs":
        results = [r for r in results if "codec" in r["query"].lower()]
    ev.assumptions.append("field to_swift_string bodies and the custom serde codec modules are executed from source on symbolic dates "
                          "(1950..2049, calendar-valid), clock times and strings; chrono's format/from_ymd_opt/from_hms_opt/parse_from_str(%Y-%m-%d) "
                          "and Rust's integer str::parse are modelled (documented contracts); amount text is an uninterpreted function of the f64")
    ev.functions.update(["fields::{field11,field13,field30,field32,field60,field61,field62,field64,field65}::*::to_swift_string",
                         "fields::field13::{time_format,date_format}, fields::field11::date_string, fields::field32::date_string (serialize / deserialize)"])
    ev.bounds.append("all calendar dates 1950-01-01..2049-12-31, all clock times HH:MM, string components unconstrained")
    return _handle(prop, "mtsym-fieldser", results, ev, lambda r: "%s/%s" % (prop, r["type"]))


def run_hdr(prop, ev):
    results = e2rules._run("hdrcheck", "run", {})
    ev.assumptions.append("UserHeader / Trailer Display::fmt is executed from source on a symbolic header instance; the documented tag of each "
                          "struct field is read from its doc comment ('Tag NNN - ...' / 'XXX - ...')")
    ev.functions.update(["headers::UserHeader (Display)", "headers::Trailer (Display)"])
    ev.bounds.append("any subset of the 13 block-3 tags / 8 block-5 tags present, values unconstrained strings")
    return _handle(prop, "mtsym-hdr", results, ev, lambda r: "%s/%s/%s" % (prop, r["type"], r.get("kf") or "display-drops-%s" % r.get("tag")))
