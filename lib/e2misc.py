"""E2 small checkers shared by several properties: field serialiser templates / JSON codecs (fieldser),
header tag sets (hdrcheck)."""
import json

import e2rules
from common import EXIT_INCONCLUSIVE, EXIT_OK, EXIT_VIOLATION, load_known_findings, log, write_replay_file
from e1 import combine


def _handle(prop, engine, results, ev, key_of):
    rc = EXIT_OK
    printed = set()
    known = {k["key"]: k for k in load_known_findings().get("findings", []) if k.get("engine") == engine and prop in k.get("properties", [k.get("property")])}
    for r in results:
        v = r["verdict"]
        ev.add_query(engine="mtsym/z3", name="%s:%s" % (r["type"], r["query"]), bound=r.get("bound", ""), verdict=v, time_s=r.get("time_s", 0),
                     states=1, transitions=1, nontrivial=True)
        if v == "unsat":
            continue
        if v == "skipped":
            ev.outside.append("%s %s: %s" % (r["type"], r["query"], r.get("detail", "")))
            continue
        if v == "sat":
            ev.replayed += 1
            w = r.get("witness") or {}
            k = known.get(key_of(r))
            if k is not None:
                if k["key"] not in printed:
                    printed.add(k["key"])
                    print("KNOWN-FINDING: property=%s %s: %s" % (prop, k["key"], k["description"]), flush=True)
                ev.known.append({"key": k["key"], "why": w.get("why")})
                continue
            path = write_replay_file(prop, {"property": prop, "engine": engine, "type": r["type"], "query": r["query"], "witness": w})
            ev.samples.append({"type": r["type"], "query": r["query"], "witness": w})
            ev.violations += 1
            print("VIOLATION property=%s replay=%s" % (prop, path), flush=True)
            log("   %s %s :: %s" % (r["type"], r["query"], w.get("why")))
            rc = combine(rc, EXIT_VIOLATION)
        else:
            log("[%s] %s %s: %s %s" % (engine, r["type"], r["query"], v, str(r.get("detail", ""))[:300]))
            ev.not_encoded.append("%s %s: %s %s" % (r["type"], r["query"], v, str(r.get("detail", ""))[:200]))
            rc = combine(rc, EXIT_INCONCLUSIVE)
    return rc


def run_fieldser(prop, ev, which):
    """which: 'templates', 'codecs' or both"""
    results = e2rules._run("fieldser", "run", {})
    if which == "templates":
        results = [r for r in results if "codec" not in r["query"].lower()]
    elif which == "codecs":
        results = [r for r in results if "codec" in r["query"].lower()]
    ev.assumptions.append("field to_swift_string bodies and the custom serde codec modules are executed from source on symbolic dates "
                          "(1950..2049, calendar-valid), clock times and strings; chrono's format/from_ymd_opt/from_hms_opt/parse_from_str(%Y-%m-%d) "
                          "and Rust's integer str::parse are modelled (documented contracts); amount text is an uninterpreted function of the f64")
    ev.functions.update(["fields::{field11,field13,field30,field32,field60,field61,field62,field64,field65}::*::to_swift_string",
                         "fields::field13::{time_format,date_format}, fields::field11::date_string, fields::field32::date_string (serialize / deserialize)"])
    ev.bounds.append("all calendar dates 1950-01-01..2049-12-31, all clock times HH:MM, string components unconstrained")
    return _handle(prop, "mtsym-fieldser", results, ev, lambda r: "%s/%s" % (prop, r["type"]))


def run_hdr(prop, ev):
    results = e2rules._run("hdrcheck", "run", {})
    ev.assumptions.append("UserHeader / Trailer Display::fmt is executed from source on a symbolic header instance; the documented tag of each "
                          "struct field is read from its doc comment ('Tag NNN - ...' / 'XXX - ...')")
    ev.functions.update(["headers::UserHeader (Display)", "headers::Trailer (Display)"])
    ev.bounds.append("any subset of the 13 block-3 tags / 8 block-5 tags present, values unconstrained strings")
    return _handle(prop, "mtsym-hdr", results, ev, lambda r: "%s/%s/%s" % (prop, r["type"], r.get("kf") or "display-drops-%s" % r.get("tag")))


def run_fmt(prop, ev, which):
    """which: 'format' (C05: accepted content has the documented format) or 'panic' (C07: parse does not panic)"""
    known_all = [k for k in load_known_findings().get("findings", []) if k.get("engine") == "mtsym-fmt"]
    results = e2rules._run("fmtcheck", "run", {"known": known_all})
    if which == "amount":
        results = [r for r in results if r["type"] == "parse_amount"]
    else:
        results = [r for r in results if r["type"] != "parse_amount" and ("no panic" in r["query"]) == (which == "panic")]
    ev.assumptions.append("field `parse` functions are executed from source on one arbitrary string of at most 60 printable ASCII characters "
                          "and line breaks (byte and character offsets coincide); the documented format is read from the struct's doc comment "
                          "and compiled to a regular expression; str::replace(char, char) and str::parse::<f64> follow their documented "
                          "contracts (std's f64 grammar), the numeric value and validate_amount_decimals are uninterpreted; every slice and "
                          "unwrap in the executed code carries a panic obligation")
    ev.functions.update(["fields::*::parse for the single-line field types listed in mtsym/fmtcheck.py (DECIDED, PANIC_ONLY)",
                         "fields::swift_utils::{parse_amount,parse_exact_length,parse_max_length,parse_swift_chars,parse_currency,...}"])
    ev.bounds.append("input strings of at most 60 characters, printable ASCII and line breaks; for the non-ASCII panic query: valid UTF-8 "
                     "texts of at most 24 bytes (1- to 3-byte characters), one solver character per byte, every slice obliged to start and "
                     "end on a character boundary")
    ev.outside.append("multi-line field formats and parsers built on str::split / lines / char_indices; non-ASCII input; the reject-inside-format "
                      "direction (semantic conditions such as calendar dates are outside the regular format)")
    # a known finding excludes its tolerated language from the query; it is reported once per run
    for k in known_all:
        if prop in k.get("properties", []) and which == "format" and any(k["key"] in (r.get("tolerated") or []) for r in results):
            print("KNOWN-FINDING: property=%s %s: %s" % (prop, k["key"], k["description"]), flush=True)
            ev.known.append({"key": k["key"], "why": "tolerated language %s excluded from the query" % k.get("tolerated")})
    return _handle(prop, "mtsym-fmt", results, ev, lambda r: "%s/%s/%s#none" % (prop, r["type"], r.get("kf")))


def run_fieldrt(prop, ev):
    """field-level round trip (parse -> to_swift_string -> parse) of the field types listed in mtsym/fieldcheck.py DECIDED"""
    results = e2rules._run("fieldcheck", "run", {"decided_only": True})
    ev.assumptions.append("field `parse` and `to_swift_string` are executed from source on a symbolic text (one arbitrary string of at most 80 "
                          "characters, or 1..6 lines of at most 40 characters, printable ASCII and Latin-1); amount parsing / formatting are an "
                          "uninterpreted inverse pair")
    ev.functions.update(["fields::*::{parse,to_swift_string} for the 28 field types of mtsym/fieldcheck.py DECIDED"])
    ev.bounds.append("field contents of at most 6 lines x 40 characters (line-structured parsers) or 80 characters (single-string parsers)")
    ev.outside.append("the other field types (round-trip queries not answered in time, or parser operations not encoded); contents beyond the bounds")
    return _handle(prop, "mtsym-fieldrt", results, ev, lambda r: "%s/%s#none" % (prop, r["type"]))


def run_block(prop, ev):
    """SwiftParser::extract_block / find_matching_brace on structured message texts (mtsym/blockcheck.py)"""
    results = e2rules._run("blockcheck", "run", {})
    ev.assumptions.append("extract_block and find_matching_brace are executed from source on five message templates (all blocks; no "
                          "block 3/5; compact `-}` terminator; a hyphen inside the last field; both) whose block contents are symbolic "
                          "pieces of fixed length over their SWIFT character classes (block 1/2: letters, digits, blanks; block 3/5 tag "
                          "values: letters, digits, '/'; block 4 field text: the x character set without line breaks); loops are unrolled "
                          "12 times with unwinding assertions; a hang is confirmed by running the real function under a 20 s limit")
    ev.functions.update(["parser::swift_parser::SwiftParser::{extract_block,find_matching_brace}"])
    ev.bounds.append("5 message templates x 5 block indices; contents of fixed lengths (25/17/6/8/7/9/3/12 characters)")
    ev.outside.append("characters outside the SWIFT classes inside block contents (braces inside field text), other block orders, "
                      "to_mt_message assembly")
    return _handle(prop, "mtsym-block", results, ev, lambda r: "%s/%s#none" % (prop, r["type"]))


def run_tokeniser(prop, ev):
    """parser::generated::parse_block4_fields on structured block-4 texts (mtsym/tokencheck.py)"""
    results = e2rules._run("tokencheck", "run", {})
    ev.assumptions.append("parse_block4_fields and normalize_field_tag are executed from source on five block-4 templates (four fields; a "
                          "tag repeated three times; option letters with LF separators and surrounding line breaks; two texts ending in a "
                          "hyphen) whose field contents are symbolic pieces of fixed length over the x character set without ':' and line "
                          "breaks, first and last character not blank; the HashMap is a map with concrete keys")
    ev.functions.update(["parser::generated::{parse_block4_fields,normalize_field_tag}"])
    ev.bounds.append("5 block-4 templates, 2-5 fields each, contents of 3-9 characters")
    ev.outside.append("field contents containing ':' or line breaks (multi-line values), more than five fields")
    return _handle(prop, "mtsym-tok4", results, ev, lambda r: "%s/%s#none" % (prop, r["type"]))


def run_tracker(prop, ev):
    """FieldConsumptionTracker from source (mtsym/trackcheck.py)"""
    results = e2rules._run("trackcheck", "run", {})
    ev.assumptions.append("FieldConsumptionTracker::{new,mark_consumed,get_next_available} are executed from source; the tracker state is "
                          "the one reached from new() by marking an arbitrary subset (one symbolic Boolean each, later occurrences first) of "
                          "three occurrences of one tag at strictly increasing symbolic positions, plus one mark of another tag; HashMap = map "
                          "with concrete keys and symbolic presence, HashSet<usize> = guarded list of integer terms, entry / get_mut = "
                          "write-through references")
    ev.functions.update(["parser::swift_parser::FieldConsumptionTracker::{new,mark_consumed,get_next_available}"])
    ev.bounds.append("one tag, 3 occurrences, positions < 100, any subset marked")
    ev.outside.append("find_field_with_variant_sequential_constrained (the lookups that drive the tracker), more than three occurrences")
    return _handle(prop, "mtsym-track", results, ev, lambda r: "%s/%s#none" % (prop, r["type"]))


def run_sequences(prop, ev, N=5):
    """parser::sequence_parser::split_into_sequences from source (mtsym/seqcheck.py)"""
    results = e2rules._run("seqcheck", "run", {"N": N}) + e2rules._run("seqcheck", "run_repetitive", {"N": min(N, 7)})
    ev.assumptions.append("split_into_sequences is executed from source from the statement after `all_fields.sort_by_key(..)`; contract "
                          "for the seven lines before it: flattening the FieldMap and sorting by stamp yields the occurrences in stamp order "
                          "(stamps distinct, as parse_block4_fields produces them); tags are symbolic strings over the tag literals of the "
                          "sequence parser and its configurations plus two fresh tags, values and stamps distinct constants; "
                          "`trim_end_matches(char::is_alphabetic)` is evaluated exactly on that vocabulary; a result map built with "
                          "entry(k).or_insert_with(Vec::new).push(x) is the list of guarded (k, x) records; five configurations: the ones "
                          "get_sequence_config returns (marker 21 without / with sequence C, marker 20) and markers 23 and 61 (MT935 / MT940 "
                          "special cases in the splitter)")
    ev.assumptions.append("parse_repetitive_sequence is executed from source under the same flatten-and-sort contract (markers 21, 20, 23; tags "
                          "over a 12-word vocabulary): every occurrence from the first marker on is in exactly one item, earlier ones in none, one "
                          "item per marker occurrence, at most 7 occurrences (N = 10 is not answered in 120 s); map clone / clear / is_empty on the record list")
    ev.functions.update(["parser::sequence_parser::{split_into_sequences,parse_repetitive_sequence,is_sequence_b_marker}"])
    ev.bounds.append("split_into_sequences: %d field occurrences, 5 configurations, tag vocabulary of about 30 words" % N)
    ev.outside.append("FieldMaps with equal stamps (HashMap iteration order would then matter); more than %d occurrences; "
                      "which sequence an occurrence is assigned to (only exactly-once is judged)" % N)
    return _handle(prop, "mtsym-seq", results, ev, lambda r: "%s/%s#none" % (prop, r["type"]))


def replay_file(path):
    """replay of a witness written by one of the source-level field / header checkers: run it on the real build again"""
    from common import replay_batch
    payload = json.load(open(path))
    eng = payload.get("engine", "")
    w = payload.get("witness") or {}
    if eng == "mtsym-track" and "positions" in w:
        out = {"claimed": w.get("why"), "real_dev": replay_batch([{"op": "tracker", "positions": w["positions"], "marks": w["marked_in_order"]}], "dev")[0]}
        print(json.dumps(out, indent=1)[:4000])
        return EXIT_VIOLATION
    if eng == "mtsym-seq" and "replay" in w:
        out = {"claimed": w.get("why"), "real_dev": replay_batch([w["replay"]], "dev")[0], "real_release": replay_batch([w["replay"]], "release")[0]}
        print(json.dumps(out, indent=1)[:4000])
        return EXIT_VIOLATION
    if eng == "mtsym-tok4" and "text" in w:
        out = {"claimed": w.get("why"), "real_dev": replay_batch([{"op": "block4_fields", "text": w["text"]}], "dev", timeout=20)[0]}
        print(json.dumps(out, indent=1)[:4000])
        return EXIT_VIOLATION
    if eng == "mtsym-block" and "text" in w:
        out = {"claimed": w.get("why"), "real_dev": replay_batch([{"op": "extract_block", "text": w["text"], "block": w["block"]}], "dev", timeout=20)[0]}
        print(json.dumps(out, indent=1)[:4000])
        return EXIT_VIOLATION
    if eng == "mtsym-fieldrt" and "content" in w:
        item = {"op": "field_roundtrip", "type": w["type"], "content": w["content"]}
    elif eng == "mtsym-fmt" and "content" in w:
        item = {"op": "field", "type": w["type"], "content": w["content"]}
    elif eng == "mtsym-hdr" and "text" in w:
        item = {"op": "header_roundtrip", "type": w["type"], "text": w["text"]}
    elif eng == "mtsym-hdr" and "json" in w:
        item = {"op": "header_json", "type": w["type"], "json": w["json"]}
    else:
        return None
    out = {"claimed": w.get("why"), "real_dev": replay_batch([item], "dev")[0], "real_release": replay_batch([item], "release")[0]}
    print(json.dumps(out, indent=1)[:4000])
    return EXIT_VIOLATION
