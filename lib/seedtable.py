#!/usr/bin/env python3
"""Print the markdown table of DESIGN.md §6 from seeded/*/meta.json and seeded/*/result.json."""
import glob
import json
import os

VERIF = os.path.dirname(os.path.dirname(os.path.abspath(__file__)))


def main():
    print("| seed | change (summary) | checks run → outcome |")
    print("|---|---|---|")
    for d in sorted(glob.glob(os.path.join(VERIF, "seeded", "*"))):
        sid = os.path.basename(d)
        m = json.load(open(os.path.join(d, "meta.json")))
        rp = os.path.join(d, "result.json")
        r = json.load(open(rp)) if os.path.exists(rp) else {}
        outs = []
        for prop, v in sorted(r.items()):
            o = {0: "missed", 1: "**caught** (%d)" % v.get("violations", 0), 2: "inconclusive (exit 2)"}.get(v["rc"], "rc=%s" % v["rc"])
            tier = " [thorough]" if v.get("tier") == "thorough" else ""
            outs.append("%s%s: %s" % (prop, tier, o))
        summ = m.get("summary", "").replace("|", "/").replace("\n", " ")
        if len(summ) > 210:
            summ = summ[:207] + "..."
        print("| %s | %s | %s |" % (sid, summ, "; ".join(outs)))


if __name__ == "__main__":
    main()
