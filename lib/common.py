"""Shared plumbing for the /verif checks: paths, evidence, known findings, native replay."""
import hashlib
import json
import os
import re
import subprocess
import sys
import time

VERIF = os.path.dirname(os.path.dirname(os.path.abspath(__file__)))
REPO = os.environ.get("VERIF_REPO", "/repo")
SCRATCH = os.environ.get("VERIF_SCRATCH", "/var/tmp/swiftmt-verif")
ENV = dict(os.environ)
ENV["CARGO_NET_OFFLINE"] = "true"
ENV.pop("RUSTFLAGS", None)
ENV.pop("RUSTC_WRAPPER", None)

EXIT_OK, EXIT_VIOLATION, EXIT_INCONCLUSIVE = 0, 1, 2


def log(*a):
    print(*a, file=sys.stderr, flush=True)


def sh(cmd, cwd=None, timeout=None, env=None, check=False):
    """Run a command, return (rc, stdout+stderr). rc=-9 on timeout."""
    try:
        p = subprocess.run(cmd, cwd=cwd, timeout=timeout, env=env or ENV, stdout=subprocess.PIPE,
                           stderr=subprocess.STDOUT, text=True, errors="replace")
        if check and p.returncode != 0:
            raise RuntimeError("command failed: %s\n%s" % (cmd, p.stdout[-4000:]))
        return p.returncode, p.stdout
    except subprocess.TimeoutExpired as e:
        out = e.stdout or ""
        if isinstance(out, bytes):
            out = out.decode("utf-8", "replace")
        return -9, out


def repo_commit():
    rc, out = sh(["git", "-C", REPO, "rev-parse", "HEAD"])
    return out.strip() if rc == 0 else "unknown"


def sync_lock(crate_dir):
    """Copy /repo/Cargo.lock next to an out-of-tree crate so that offline resolution is pinned."""
    src = os.path.join(REPO, "Cargo.lock")
    dst = os.path.join(crate_dir, "Cargo.lock")
    try:
        a = open(src).read()
    except OSError:
        return
    try:
        b = open(dst).read()
    except OSError:
        b = None
    if b is None:
        open(dst, "w").write(a)


# ----------------------------------------------------------------------------------------------
# known findings
# ----------------------------------------------------------------------------------------------

def load_known_findings():
    p = os.path.join(VERIF, "known_findings.json")
    with open(p) as f:
        return json.load(f)


def kf_const(key):
    return "KF_" + re.sub(r"[^A-Za-z0-9]", "_", key).upper()


def gen_kf_rs():
    """harness/kf.rs: one bool constant per known-finding role that names a harness exclusion.
    Under Kani the role is assumed away; the native replayer never excludes anything."""
    kf = load_known_findings()
    lines = [
        "//! GENERATED from /verif/known_findings.json by lib/common.py — do not edit.",
        "//! One constant per known-finding role: under Kani `true` means the role is assumed away in",
        "//! the property harness (so any *other* violation is still reported); natively always false.",
        "#![allow(dead_code)]",
    ]
    declared = set()
    for e in kf.get("findings", []):
        c = kf_const(e["key"])
        if c in declared:
            continue
        declared.add(c)
        lines.append("#[cfg(kani)]\npub const %s: bool = true;" % c)
        lines.append("#[cfg(not(kani))]\npub const %s: bool = false;" % c)
    # roles referenced by harness code but absent from the file default to "not excluded"
    used = set()
    hdir = os.path.join(VERIF, "harness")
    for fn in sorted(os.listdir(hdir)):
        if fn.endswith(".rs") and fn != "kf.rs":
            used |= set(re.findall(r"kf::(KF_[A-Z0-9_]+)", open(os.path.join(hdir, fn)).read()))
    for c in sorted(used - declared):
        lines.append("pub const %s: bool = false;" % c)
    text = "\n".join(lines) + "\n"
    p = os.path.join(hdir, "kf.rs")
    old = open(p).read() if os.path.exists(p) else None
    if old != text:
        open(p, "w").write(text)


def gen_registry():
    import gen
    return gen.generate()


# ----------------------------------------------------------------------------------------------
# native replayer
# ----------------------------------------------------------------------------------------------

_replay_built = {}


def build_replay(profile="dev"):
    if profile in _replay_built:
        return _replay_built[profile]
    gen_kf_rs()
    gen_registry()
    import genapi
    genapi.generate()
    crate = os.path.join(VERIF, "replay")
    sync_lock(crate)
    tdir = os.path.join(SCRATCH, "replay-target")
    cmd = ["cargo", "build", "--target-dir", tdir]
    if profile == "release":
        cmd.append("--release")
    t0 = time.time()
    rc, out = sh(cmd, cwd=crate, timeout=1800)
    if rc != 0:
        log(out[-6000:])
        raise RuntimeError("replayer build failed (%s)" % profile)
    exe = os.path.join(tdir, "release" if profile == "release" else "debug", "swiftmt-replay")
    _replay_built[profile] = exe
    log("[replay] built %s in %.1fs" % (profile, time.time() - t0))
    return exe


def replay_batch(items, profile="dev", timeout=600):
    """items: list of {"harness":..., "vals":[[..]]} or {"op":...}. Returns list of outcomes."""
    if not items:
        return []
    exe = build_replay(profile)
    os.makedirs(os.path.join(SCRATCH, "tmp"), exist_ok=True)
    p = os.path.join(SCRATCH, "tmp", "batch-%d-%s.json" % (os.getpid(), hashlib.sha1(
        json.dumps(items, sort_keys=True).encode()).hexdigest()[:10]))
    with open(p, "w") as f:
        json.dump(items, f)
    try:
        pr = subprocess.run([exe, "batch", p], stdout=subprocess.PIPE, stderr=subprocess.PIPE, text=True,
                            timeout=timeout, errors="replace")
    except subprocess.TimeoutExpired:
        # find the culprit one by one
        outs = []
        for it in items:
            with open(p, "w") as f:
                json.dump([it], f)
            try:
                q = subprocess.run([exe, "batch", p], stdout=subprocess.PIPE, stderr=subprocess.PIPE,
                                   text=True, timeout=20, errors="replace")
                outs.append(json.loads(q.stdout)[0] if q.returncode == 0 else {"outcome": "crash", "rc": q.returncode})
            except subprocess.TimeoutExpired:
                outs.append({"outcome": "hang"})
        os.unlink(p)
        return outs
    finally:
        pass
    if pr.returncode != 0:
        # a hard abort (stack overflow, abort) — isolate
        outs = []
        for it in items:
            with open(p, "w") as f:
                json.dump([it], f)
            try:
                q = subprocess.run([exe, "batch", p], stdout=subprocess.PIPE, stderr=subprocess.PIPE,
                                   text=True, timeout=60, errors="replace")
                if q.returncode == 0:
                    outs.append(json.loads(q.stdout)[0])
                else:
                    outs.append({"outcome": "crash", "rc": q.returncode, "stderr": q.stderr[-500:]})
            except subprocess.TimeoutExpired:
                outs.append({"outcome": "hang"})
        os.unlink(p)
        return outs
    os.unlink(p)
    return json.loads(pr.stdout)


def is_failure(outcome):
    """Does a native replay outcome show a violation (failed assertion, panic, crash or hang)?"""
    return outcome.get("outcome") in ("vassert", "panic", "crash", "hang") or "panic" in outcome


# ----------------------------------------------------------------------------------------------
# evidence
# ----------------------------------------------------------------------------------------------

class Evidence:
    def __init__(self, prop, tier, seed, level="model_checking"):
        self.prop, self.tier, self.seed, self.level = prop, tier, seed, level
        self.t0 = time.time()
        self.queries = []          # dicts: {engine, name, verdict, time_s, ...}
        self.samples = []
        self.functions = set()
        self.bounds = []
        self.assumptions = []
        self.outside = []
        self.not_encoded = []
        self.known = []
        self.violations = 0
        self.exhaustive = False
        self.extra = {}
        self.replayed = 0
        self.solver_time = 0.0

    def add_query(self, **kw):
        self.queries.append(kw)
        self.solver_time += float(kw.get("time_s", 0) or 0)

    def write(self, status):
        distinct = set()
        for q in self.queries:
            if q.get("nontrivial", True):
                distinct.add((q.get("engine"), q.get("name"), q.get("bound")))
        cov = {
            "evaluations": max(1, len(self.queries)),
            "distinct_nontrivial": len(distinct),
            "rule": ("one evaluation = one solver query (z3/cvc5 SMT query on the encoding regenerated from "
                     "/repo) or one Kani/CBMC harness decided over all inputs within its bound; a query counts "
                     "as non-trivial when its vacuity witness (cover / reachability twin) was reached, and as "
                     "distinct by (engine, query name, bound)"),
            "samples": self.samples[:40] if self.samples else ["(no witness produced: all queries unsat / all harnesses successful)"],
            "states": max(1, sum(int(q.get("states", 0) or 0) for q in self.queries)),
            "transitions": max(1, sum(int(q.get("transitions", 0) or 0) for q in self.queries)),
            "traces_validated_against_impl": self.replayed,
            "exhaustive": self.exhaustive,
            "functions_encoded": sorted(self.functions),
            "bounds": self.bounds,
            "queries": self.queries,
            "solver_time_s": round(self.solver_time, 2),
            "outside_bounds": self.outside,
            "not_encoded": self.not_encoded,
            "known_findings_reproduced": self.known,
            "status": status,
            "repo_commit": repo_commit(),
        }
        cov.update(self.extra)
        ev = {
            "property_id": self.prop,
            "tier": self.tier,
            "seed": self.seed,
            "level": self.level,
            "coverage": cov,
            "assumptions": self.assumptions,
            "wall_s": round(time.time() - self.t0, 2),
            "violations": self.violations,
        }
        os.makedirs(os.path.join(VERIF, "evidence"), exist_ok=True)
        with open(os.path.join(VERIF, "evidence", "%s.json" % self.prop), "w") as f:
            json.dump(ev, f, indent=1, sort_keys=False)
            f.write("\n")


def write_replay_file(prop, payload):
    d = os.path.join(VERIF, "replay", "witnesses")
    os.makedirs(d, exist_ok=True)
    h = hashlib.sha1(json.dumps(payload, sort_keys=True).encode()).hexdigest()[:12]
    p = os.path.join(d, "%s-%s.json" % (prop, h))
    with open(p, "w") as f:
        json.dump(payload, f, indent=1)
    return p
