"""Harness registry: which Kani harnesses decide which property, in which tier, within which bound."""

SU = "fields::swift_utils::"


def H(name, tier="quick", timeout=600, functions=(), bound="", assumes=()):
    return {"name": name, "tier": tier, "timeout": timeout, "functions": list(functions), "bound": bound,
            "assumes": list(assumes)}


HARNESSES = {
    "C11": [
        H("c11_date_yymmdd", functions=[SU + "parse_date_yymmdd"], bound="all 6-byte ASCII strings (2^42 inputs), unwind 8"),
        H("c11_date_yymmdd_len", functions=[SU + "parse_date_yymmdd"], bound="all UTF-8 strings of 0..8 bytes, length != 6, unwind 10"),
        H("c11_date_yymmdd_utf8", functions=[SU + "parse_date_yymmdd"], bound="all 6-byte non-ASCII UTF-8 strings, unwind 8"),
        H("c11_time_hhmm", functions=[SU + "parse_time_hhmm"], bound="all 4-byte ASCII strings, unwind 8"),
        H("c11_time_hhmm_utf8", functions=[SU + "parse_time_hhmm"], bound="all UTF-8 strings of 0..6 bytes other than 4 ASCII bytes, unwind 8"),
    ],
}
