"""C05 — field parsers accept exactly their documented format (primitive validators and kernels with Kani; single-line field
types against the format in their doc comment, executed from source)."""
import e1
import e2misc


def run(tier, seed, ev, jobs):
    rc = e2misc.run_fmt("C05", ev, "format")
    ev.outside.append("field types whose parser is not covered by a harness or a format query listed in this evidence file; contents "
                      "longer than the stated sizes with independent symbolic bytes")
    return e1.combine(rc, e1.run_e1("C05", tier, seed, ev, jobs))


def replay(path):
    r = e2misc.replay_file(path)
    return r if r is not None else e1.replay_file(path)
