"""C05 — field parsers accept exactly their documented format (primitive validators and kernels, Kani)."""
import e1


def run(tier, seed, ev, jobs):
    ev.outside.append("field types whose parser is not covered by a harness listed in this evidence file; contents longer than the "
                      "stated sizes with independent symbolic bytes")
    return e1.run_e1("C05", tier, seed, ev, jobs)


def replay(path):
    return e1.replay_file(path)
