"""C03 — every well-formed message of a supported type is accepted and reproduced exactly."""
import e1
import e2tok


def run(tier, seed, ev, jobs):
    rc = e2tok.run_tokens("C03", ["unwind", "sup", "repr_spec"], tier, seed, ev, jobs)
    return e1.combine(rc, e1.run_e1("C03", tier, seed, ev, jobs))


def replay(path):
    r = e2tok.replay_file(path)
    return r if r is not None else e1.replay_file(path)
