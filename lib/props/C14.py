"""C14 — field option letters decide the variant and are preserved."""
import e1
import e2tok


def run(tier, seed, ev, jobs):
    rc = e2tok.run_tokens("C14", ["unwind", "retag", "sup"], tier, seed, ev, jobs)
    return e1.combine(rc, e1.run_e1("C14", tier, seed, ev, jobs))


def replay(path):
    r = e2tok.replay_file(path)
    return r if r is not None else e1.replay_file(path)
