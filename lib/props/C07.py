"""C07 — parsing is total: no panic, no hang (Kani panic/unwinding obligations + loop progress of all layouts)."""
import e1
import e2misc
import e2tok


def run(tier, seed, ev, jobs):
    rc = e2tok.run_tokens("C07", ["unwind", "progress"], tier, seed, ev, jobs)
    rc = e1.combine(rc, e2misc.run_fmt("C07", ev, "panic"))
    rc = e1.combine(rc, e2misc.run_block("C07", ev))
    ev.outside.append("inputs longer than the stated sizes (the polynomial-time claim for 1 MB inputs), message-level entry points on "
                      "symbolic text, JSON conversion and plugin functions")
    return e1.combine(rc, e1.run_e1("C07", tier, seed, ev, jobs))


def replay(path):
    r = e2tok.replay_file(path)
    if r is None:
        r = e2misc.replay_file(path)
    return r if r is not None else e1.replay_file(path)
