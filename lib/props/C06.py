"""C06 — amounts: currency precision table (Kani, all 26^3 codes)."""
import e1


def run(tier, seed, ev, jobs):
    ev.outside.append("str::parse::<f64> and {:.N} formatting are not reachable by either engine on this code base: the accept-only-decimals and "
                      "value-preservation halves of C06 are not decided; only the ISO-4217 precision table and the currency shape/commodity "
                      "checks are")
    return e1.run_e1("C06", tier, seed, ev, jobs)


def replay(path):
    return e1.replay_file(path)
