"""C06 — amounts: currency precision table (Kani, all 26^3 codes) and the language of accepted amount texts (source level)."""
import e1
import e2misc


def run(tier, seed, ev, jobs):
    rc = e2misc.run_fmt("C06", ev, "amount")
    ev.outside.append("the numeric value (str::parse::<f64> result, {:.N} formatting): value preservation across serialising and re-parsing "
                      "is not decided; the language of accepted amount texts, the ISO-4217 precision table and the currency shape / "
                      "commodity checks are")
    return e1.combine(rc, e1.run_e1("C06", tier, seed, ev, jobs))


def replay(path):
    r = e2misc.replay_file(path)
    return r if r is not None else e1.replay_file(path)
