"""C08 — JSON conversion (kernel): custom codecs round trip, executed from source."""
import e1
import e2misc


def run(tier, seed, ev, jobs):
    rc = e2misc.run_fieldser("C08", ev, "codecs")
    ev.outside.append("derived serde impls as executed by serde_json (to_value/from_value, flatten buffering), publish_mt / parse_mt plugin "
                      "paths, key structure — not encoded; C08 is claimed at the custom-codec kernel only")
    return e1.combine(rc, e1.run_e1("C08", tier, seed, ev, jobs))


def replay(path):
    print(open(path).read())
    return 1
