"""C02 — MT round trip is stable (message level at token granularity; field level via Kani kernels)."""
import e1
import e2misc
import e2tok


def run(tier, seed, ev, jobs):
    ev.outside.append("message-level byte equality is decided at token granularity (tag sequence and which token each slot holds); "
                      "the replayed witnesses and the translator-validation corpus are compared byte for byte after re-parsing")
    rc = e2tok.run_tokens("C02", ["unwind", "repr"], tier, seed, ev, jobs)
    rc = e1.combine(rc, e2misc.run_fieldrt("C02", ev))
    return e1.combine(rc, e1.run_e1("C02", tier, seed, ev, jobs))


def replay(path):
    r = e2tok.replay_file(path)
    if r is None:
        r = e2misc.replay_file(path)
    return r if r is not None else e1.replay_file(path)
