"""C13 — network validation (struct-level symbolic execution vs reference rule models)."""
import e1
import e2rules


def run(tier, seed, ev, jobs):
    rc = e2rules.run_rules("C13", tier, seed, ev, jobs)
    rc = e1.combine(rc, e2rules.run_wrap("C13", tier, seed, ev, jobs))
    return e1.combine(rc, e1.run_e1("C13", tier, seed, ev, jobs))


def replay(path):
    r = e2rules.replay_file(path)
    return r if r is not None else e1.replay_file(path)
