"""C10 — envelope integrity: header parsing at the documented offsets (Kani) + block 3/5 tag sets (source level)."""
import e1
import e2misc


def run(tier, seed, ev, jobs):
    rc = e2misc.run_hdr("C10", ev)
    rc = e1.combine(rc, e2misc.run_block("C10", ev))
    ev.outside.append("to_mt_message assembly is not covered; "
                      "UserHeader/Trailer::parse on texts holding several tags at once or text between the tags is not covered")
    return e1.combine(rc, e1.run_e1("C10", tier, seed, ev, jobs))


def replay(path):
    import json
    r = e2misc.replay_file(path)
    if r is None:
        r = e1.replay_file(path)
    if r is None:
        print(open(path).read())
        return 1
    return r
