"""C01 — nothing in an accepted message is silently discarded."""
import e1
import e2tok


def run(tier, seed, ev, jobs):
    rc = e2tok.run_tokens("C01", ["unwind", "repr", "sub"], tier, seed, ev, jobs, n_for={"MT210": 14})
    return e1.combine(rc, e1.run_e1("C01", tier, seed, ev, jobs))


def replay(path):
    r = e2tok.replay_file(path)
    return r if r is not None else e1.replay_file(path)
