"""C12 — message-type dispatch is consistent across every entry point."""
import e1
import e2rules
from common import EXIT_INCONCLUSIVE, EXIT_OK, EXIT_VIOLATION, log, write_replay_file


def run(tier, seed, ev, jobs):
    results = e2rules._run("dispatch", "run", {})
    rc = EXIT_OK
    ev.exhaustive = True
    ev.assumptions.append("dispatch tables (match on the 3-digit type string / on the ParsedSwiftMessage variant) are extracted from the current "
                          "source by syn; each arm is mapped to the unique MTnnn type its body mentions; the solver decides table(code) == "
                          "owner(code) for all codes 000-999")
    ev.functions.update(["parser::swift_parser::SwiftParser::{parse_message_auto,parse_message}", "parsed_message::ParsedSwiftMessage::{message_type,validate}",
                         "plugin::parse::parse_swift_mt", "plugin::publish::json_to_mt", "plugin::validate::validate_network_rules",
                         "messages::mt*::message_type (30 types)"])
    ev.bounds.append("all 1000 three-digit codes x every dispatch table found in the five entry points (closed domain)")
    for r in results:
        v = r["verdict"]
        ev.add_query(engine="mtsym/z3", name=r["query"], bound="codes 000-999", verdict=v, time_s=r.get("time_s", 0), states=1000, transitions=1000,
                     nontrivial=True)
        if v == "unsat":
            continue
        if v == "sat":
            w = r.get("witness") or {}
            path = write_replay_file("C12", {"property": "C12", "engine": "mtsym-dispatch", "query": r["query"], "why": w.get("why"), "code": w.get("code")})
            ev.samples.append({"query": r["query"], "witness": w})
            ev.violations += 1
            print("VIOLATION property=C12 replay=%s" % path, flush=True)
            log("   %s :: %s" % (r["query"], w.get("why")))
            rc = e1.combine(rc, EXIT_VIOLATION)
        else:
            ev.not_encoded.append("%s: %s %s" % (r["query"], v, r.get("detail", "")))
            rc = e1.combine(rc, EXIT_INCONCLUSIVE)
    if not ev.samples:
        ev.samples.append({"example_query": results[0]["query"] if results else "", "meaning": "exists code in 000..999: table(code) != owner(code) -> unsat"})
    ev.outside.append("that the plugin functions behave like the typed API beyond type selection (serde_json / dataflow-rs plumbing)")
    rc = e1.combine(rc, e2rules.run_wrap("C12", tier, seed, ev, jobs))
    return e1.combine(rc, e1.run_e1("C12", tier, seed, ev, jobs))


def replay(path):
    import json
    if json.load(open(path)).get("engine") == "mtsym-wrap":
        return e2rules.replay_file(path)
    print(open(path).read())
    return EXIT_VIOLATION
