"""C11 — dates and times."""
import e1
import e2misc


def run(tier, seed, ev, jobs):
    ev.exhaustive = True
    rc = e2misc.run_fieldser("C11", ev, "both")
    return e1.combine(rc, e1.run_e1("C11", tier, seed, ev, jobs))


def replay(path):
    r = e1.replay_file(path)
    if r is None:
        print(open(path).read())
        return 1
    return r
