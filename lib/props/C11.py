"""C11 — dates and times."""
import e1


def run(tier, seed, ev, jobs):
    ev.exhaustive = True
    ev.outside.append("date/time components embedded in longer field contents are covered through the field parsers of C05/C07")
    return e1.run_e1("C11", tier, seed, ev, jobs)


def replay(path):
    return e1.replay_file(path)
