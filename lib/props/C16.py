"""C16 — field-map tokeniser and consumption tracker (source level) and tag helpers (bounded Kani kernels)."""
import e1
import e2misc


def run(tier, seed, ev, jobs):
    rc = e2misc.run_tokeniser("C16", ev)
    rc = e1.combine(rc, e2misc.run_tracker("C16", ev))
    rc = e1.combine(rc, e2misc.run_sequences("C16", ev, N=8 if tier == "quick" else 12))
    ev.outside.append("texts longer than the stated sizes; find_field_with_variant_sequential_constrained")
    return e1.combine(rc, e1.run_e1("C16", tier, seed, ev, jobs))


def replay(path):
    r = e2misc.replay_file(path)
    return r if r is not None else e1.replay_file(path)
