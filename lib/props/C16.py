"""C16 — legacy field-map tokeniser and sequential consumption (bounded Kani kernels)."""
import e1


def run(tier, seed, ev, jobs):
    ev.outside.append("split_into_sequences / parse_repetitive_sequence; texts longer than the stated sizes; find_field_with_variant_sequential_constrained")
    return e1.run_e1("C16", tier, seed, ev, jobs)


def replay(path):
    return e1.replay_file(path)
