#!/usr/bin/env python3
"""Apply a seeded change to /repo, run the given checks, undo the change. Usage: seedrun.py <seed-id> <Cxx>..."""
import json
import os
import subprocess
import sys
import time

VERIF = os.path.dirname(os.path.dirname(os.path.abspath(__file__)))


def main():
    sid, props = sys.argv[1], sys.argv[2:]
    d = os.path.join(VERIF, "seeded", sid)
    st = subprocess.run(["git", "-C", "/repo", "status", "--porcelain"], stdout=subprocess.PIPE, text=True).stdout.strip()
    if st:
        print("refusing: /repo has local changes", st)
        sys.exit(2)
    r = subprocess.run(["git", "-C", "/repo", "apply", os.path.join(d, "patch.diff")])
    if r.returncode != 0:
        print("patch does not apply")
        sys.exit(2)
    out = {}
    try:
        for p in props:
            t0 = time.time()
            pr = subprocess.run([os.path.join(VERIF, "check"), p, "--tier", os.environ.get("VERIF_TIER", "quick")], stdout=subprocess.PIPE,
                                stderr=subprocess.PIPE, text=True, cwd=VERIF)
            viol = [l for l in pr.stdout.splitlines() if l.startswith("VIOLATION")]
            detail = [l.strip() for l in pr.stderr.splitlines() if l.startswith("   ")][:6]
            out[p] = {"rc": pr.returncode, "violations": len(viol), "detail": detail, "wall_s": round(time.time() - t0, 1),
                      "tier": os.environ.get("VERIF_TIER", "quick")}
            print(sid, p, "rc=%d" % pr.returncode, "violations=%d" % len(viol), detail[:2], flush=True)
    finally:
        subprocess.run(["git", "-C", "/repo", "checkout", "--", "."])
    res_p = os.path.join(d, "result.json")
    old = json.load(open(res_p)) if os.path.exists(res_p) else {}
    old.update(out)
    json.dump(old, open(res_p, "w"), indent=1)


if __name__ == "__main__":
    main()
