"""E2 token-machine part of a property check (C01/C02/C03/C07/C09/C14)."""
import json
import os
import subprocess
import sys

from common import (EXIT_INCONCLUSIVE, EXIT_OK, EXIT_VIOLATION, VERIF, load_known_findings, log, replay_batch,
                    write_replay_file)
from e1 import combine

PY = "python3-vt"

PRIM_CONTRACT = [
    "token abstraction: a block-4 text is a list of <= N (tag, content) tokens; white space between fields and the final '-' are not modelled",
    "primitive contract used by the encoding: extract_field_content(suffix, TAG) finds the first token with that tag at or after the "
    "position (substring-search semantics), `suffix.starts_with(\":TAG:\")` compares the tag of the next token; "
    "X::parse(content) of a field struct X is an uninterpreted predicate ok_X(token); finalize_mt_string is the identity at token level",
    "MessageParser, parser::utils, parse_from_block4 / to_mt_string of all 30 types and the option enums' parse_with_variant are executed "
    "from their current source (syn AST) by the symbolic interpreter; an unreadable construct makes the query 'not encoded'",
    "every model is concretised with canonical field contents discovered against the real field parsers and replayed through the real "
    "parse_from_block4 / to_mt_string before it is reported",
]


def run_worker(prop, which, N_quick, tier, seed, jobs, only=None, n_for=None):
    """Run mtsym/tokcheck in the tooling venv; returns (results, info)."""
    known = [k for k in load_known_findings().get("findings", []) if k.get("engine") == "mtsym" and prop in k.get("properties", [k.get("property")])]
    # MT210 is the one type whose repetition cap (10 sequences) is within reach: 13 tokens. Only a property whose queries do not
    # depend on the cap asks for N = 14 (n_for; C01: "accepted => reproduced / in the layout"). The layout specification carries no
    # caps, so for the accept-side properties (C03, C09, C14) an eleven-sequence MT210 would be "well-formed" to the oracle while
    # the library rightly rejects it: they stay within N <= 12.
    req = {"which": which, "N": N_quick, "tier": tier, "seed": seed, "jobs": jobs, "known": known, "only": only,
           "n_for": dict(n_for or {})}
    code = (
        "import sys, json; sys.path.insert(0, %r); import tokcheck\n"
        "req = json.load(sys.stdin)\n"
        "big = ('MT101', 'MT104', 'MT107')\n"
        "Nf0 = (lambda t: req['N']) if req['tier'] == 'quick' else (lambda t: req['N'] + (2 if t in big else 4))\n"
        "Nf = lambda t: max(Nf0(t), req['n_for'].get(t, 0))\n"
        "res, info = tokcheck.run_all(req['which'] + ['validate'], Nf, req['known'], jobs=req['jobs'], only=req['only'], seed=req['seed'])\n"
        "json.dump({'results': res, 'info': {'types': info['types']}}, sys.stdout)\n" % os.path.join(VERIF, "mtsym"))
    p = subprocess.run([PY, "-c", code], input=json.dumps(req), stdout=subprocess.PIPE, stderr=subprocess.PIPE, text=True,
                       timeout=3 * 3600)
    if p.returncode != 0:
        log(p.stderr[-4000:])
        raise RuntimeError("mtsym worker failed")
    out = p.stdout[p.stdout.index("{"):]
    d = json.loads(out)
    return d["results"], d["info"], known


def run_tokens(prop, which, tier, seed, ev, jobs, N_quick=8, n_for=None):
    results, info, known = run_worker(prop, which, N_quick, tier, seed, jobs, n_for=n_for)
    rc = EXIT_OK
    for a in PRIM_CONTRACT:
        if a not in ev.assumptions:
            ev.assumptions.append(a)
    ev.functions.update(["parser::message_parser::MessageParser::{parse_field,parse_optional_field,parse_variant_field,"
                         "parse_optional_variant_field,extract_field,detect_variant,detect_variant_optional,detect_field,"
                         "peek_field_variant,is_complete}", "parser::utils::{append_field,append_optional_field,append_vec_field,"
                         "parse_repeated_field,verify_parser_complete}", "messages::mt*::parse_from_block4 (30 types)",
                         "messages::mt*::to_mt_string (30 types)", "fields::*::parse_with_variant (option enums)"])
    by_type_n = {}
    for r in results:
        by_type_n[r["type"]] = (r.get("N"), r.get("K"))
        v = r["verdict"]
        qrec = {"engine": "mtsym/z3", "name": "%s:%s" % (r["type"], r["query"]), "bound": "N=%s tokens, loops unrolled K=%s (unwinding asserted)" % (r.get("N"), r.get("K")),
                "verdict": v, "time_s": r.get("time_s", 0), "states": 1, "transitions": 1,
                "nontrivial": r.get("kind") not in ("unwind",) or r.get("obligations", 0) > 0}
        ev.add_query(**qrec)
        if r.get("kind") == "known":
            ev.replayed += 1
            if v == "reproduced":
                print("KNOWN-FINDING: property=%s %s: %s" % (prop, r["key"], r["description"]), flush=True)
                ev.known.append({"key": r["key"], "why": r.get("why")})
            else:
                log("[known] stale entry %s" % r["key"])
                ev.known.append({"key": r["key"], "stale": True})
            continue
        if r.get("kind") == "validation":
            ev.replayed += r.get("checked", 0)
            if r.get("sample"):
                ev.samples.append({"translator_validation_text": r["sample"], "type": r["type"]})
        for t in r.get("models_tried", []) or []:
            ev.replayed += 1
        if v == "unsat":
            continue
        if v == "sat":
            w = r["witness"]
            payload = {"property": prop, "engine": "mtsym", "type": r["type"], "query": r["query"], "kind": w["kind"], "text": w["text"],
                       "tokens": w["tokens"], "extra": w.get("extra"), "why": w["why"]}
            path = write_replay_file(prop, payload)
            ev.samples.append({"type": r["type"], "query": r["query"], "witness_tokens": w["tokens"], "real_outcome": w["why"]})
            ev.violations += 1
            print("VIOLATION property=%s replay=%s" % (prop, path), flush=True)
            log("   %s %s: %s :: %s" % (r["type"], r["query"], w["tokens"], w["why"]))
            rc = combine(rc, EXIT_VIOLATION)
        else:
            log("[mtsym] %s %s: %s %s %s" % (r["type"], r["query"], v, r.get("detail", ""), json.dumps(r.get("disagreements", ""))[:800]))
            ev.not_encoded.append("%s %s: %s %s" % (r["type"], r["query"], v, str(r.get("detail", ""))[:300]))
            rc = combine(rc, EXIT_INCONCLUSIVE)
    ev.bounds.append("token machine: " + ", ".join("%s N=%s K=%s" % (t, n, k) for t, (n, k) in sorted(by_type_n.items())))
    ev.outside.append("messages with more than N field occurrences; byte-level effects inside field contents (contents are canonical samples "
                      "or uninterpreted); repetition caps 10/100/500 (beyond the token budget)")
    if not any(s for s in ev.samples if "translator_validation_text" in s):
        pass
    return rc


def replay_file(path):
    payload = json.load(open(path))
    if payload.get("engine") != "mtsym":
        return None
    out = replay_batch([{"op": "block4", "type": payload["type"], "text": payload["text"]}], "dev")[0]
    out_rel = replay_batch([{"op": "block4", "type": payload["type"], "text": payload["text"]}], "release")[0]
    print(json.dumps({"input": payload["text"], "claimed": payload["why"], "real_dev": out, "real_release": out_rel}, indent=1)[:6000])
    return EXIT_VIOLATION
