#!/usr/bin/env python3
"""Regenerate /verif/MANIFEST.json from the table below (kept in one place so it stays valid)."""
import json
import os

VERIF = os.path.dirname(os.path.dirname(os.path.abspath(__file__)))

TRUST = ("rustc/Kani 0.68/CBMC 6.11/CaDiCaL, z3 4.8.12 (+cvc5 cross-check); std perf stubs (naive memchr, "
         "nondeterministic Unicode tables for non-ASCII, format! -> empty only on message-text sites); results are "
         "bounded: sizes/unwindings are listed per query in the evidence file; counterexamples are replayed against "
         "the real build (dev and release) before being reported")

TOK_TECH = ("source-level symbolic execution (syn AST of the real MessageParser/utils/parse_from_block4/to_mt_string -> z3 formula "
            "with state merging) over a symbolic token list, bounded by N tokens with checked loop unwinding; models replayed against the real parser")

CLAIMED = {
    "C01": dict(
        technique=TOK_TECH + "; oracle: serialisation identity + independent layout automaton",
        text=("For each of the 30 types the solver decides, for every token list up to N fields (tags symbolic, contents "
              "uninterpreted), that acceptance implies the serialised tag sequence equals the input sequence (no token skipped, "
              "dropped, reordered or re-tagged) and that every accepted sequence belongs to the independently written layout "
              "language (unknown tag, duplicate, misplaced, trailing or extra fields are rejected)."),
        design_ref="DESIGN.md §4 C01"),
    "C02": dict(
        technique=TOK_TECH + "; field-level round trips by Kani/CBMC on the compiled field parsers",
        text=("Message level: token-level identity of parse∘serialise for all token lists up to N fields implies that re-parsing "
              "the output yields the same slots and the same text; field level: Kani harnesses over symbolic contents."),
        design_ref="DESIGN.md §4 C02"),
    "C03": dict(
        technique=TOK_TECH + "; oracle: Glushkov automaton of an independent layout specification encoded in SMT",
        text=("For every token list in the documented layout language of a type (all optional subsets, options, repetitions "
              "within N tokens) with canonical contents, the solver shows the real layout code accepts it and reproduces it."),
        design_ref="DESIGN.md §4 C03"),
    "C09": dict(
        technique=TOK_TECH + "; deletion modelled by a ghost step of the layout automaton, invalid content by one false ok-bit",
        text=("For every layout-valid list with one mandatory occurrence deleted, the real code rejects with an error naming "
              "the tag and type; with exactly one invalid content, InvalidFieldFormat carries that tag and content."),
        design_ref="DESIGN.md §4 C09"),
    "C14": dict(
        technique=TOK_TECH + "; option enums' parse_with_variant executed from source, serialiser tags read from to_swift_string",
        text=("In every message position, for every option letter the detection code can return, the variant built by the "
              "real parse_with_variant is serialised under the tag that was read, or the field is rejected."),
        design_ref="DESIGN.md §4 C14"),
    "C11": dict(
        technique="Kani/CBMC bounded model checking of the compiled date/time parsers vs. a reference calendar, all byte values",
        text=("Solver verdict over every byte string of the stated lengths for parse_date_yymmdd / parse_time_hhmm "
              "(accept iff digits and calendar/clock valid, value equal, no panic), chrono formatting round trip, "
              "field-local date paths and JSON date codecs compared with the shared primitive."),
        design_ref="DESIGN.md §4 C11"),
}

NOT_YET = {}

NA = {
    "C15": "quantifies over draws of datafake-rs/rand generators rendered through serde_json and the plugin pipeline; "
           "neither Kani nor a source-level SMT encoding can represent those generators without inventing a model of them",
}


def main():
    props = [json.loads(l) for l in open(os.path.join(VERIF, "properties.jsonl"))]
    checks, na = [], []
    for p in props:
        pid = p["id"]
        if pid in CLAIMED:
            c = CLAIMED[pid]
            checks.append({
                "property_id": pid,
                "quick_cmd": "./check %s --tier quick" % pid,
                "thorough_cmd": "./check %s --tier thorough" % pid,
                "evidence_file": "/verif/evidence/%s.json" % pid,
                "replay_cmd_template": "./check %s --replay {path}" % pid,
                "engine": c.get("engine", "kani+mtsym"),
                "level_claimed": {"category": "model_checking", "text": c["text"], "design_ref": c["design_ref"]},
                "level_note": c.get("note", TRUST),
                "technique": c["technique"],
            })
        elif pid in NA:
            na.append({"property_id": pid, "reason": NA[pid]})
        else:
            na.append({"property_id": pid, "reason": NOT_YET.get(pid, "check not built yet in this round (planned in DESIGN.md §4); not claimed until its quick command exists")})
    m = {
        "version": 1,
        "setup_cmd": "./setup.sh",
        "hooks": {
            "guard": "swiftmt_verif",
            "enable": "none needed: all checks use public items of the crate; reserved flag --cfg swiftmt_verif",
            "baseline_off_cmd": "cd /repo && cargo test --workspace --no-fail-fast --offline",
            "source_commits": [],
            "add_only": True,
        },
        "engines": [
            {"name": "kani", "path": "/verif/kani", "serves_properties": sorted(CLAIMED),
             "kind_free_text": "Kani 0.68 / CBMC harness crate (path dependency on /repo, rebuilt every run); harness bodies in /verif/harness are shared with the native replayer"},
            {"name": "mtsym", "path": "/verif/mtsym", "serves_properties": [],
             "kind_free_text": "source-level symbolic execution: syn-based extractor of the stylised layout/serialiser/dispatch code -> SMT (z3, cvc5 cross-check)"},
            {"name": "replay", "path": "/verif/replay", "serves_properties": sorted(CLAIMED),
             "kind_free_text": "native replayer of solver witnesses against the real library (dev and release)"},
        ],
        "checks": checks,
        "not_applicable": na,
        "notes": "Exit 2 from a check means inconclusive (timeout/OOM/unsupported construct/non-reproducing witness) and is never a pass.",
    }
    with open(os.path.join(VERIF, "MANIFEST.json"), "w") as f:
        json.dump(m, f, indent=1)
        f.write("\n")


if __name__ == "__main__":
    main()
