#!/usr/bin/env python3
"""Regenerate /verif/MANIFEST.json from the table below (kept in one place so it stays valid)."""
import json
import os

VERIF = os.path.dirname(os.path.dirname(os.path.abspath(__file__)))

TRUST = ("rustc/Kani 0.68/CBMC 6.11/CaDiCaL, z3 5.1 (python z3-solver of the tooling venv); std perf stubs (naive memchr, "
         "nondeterministic Unicode tables for non-ASCII, format! -> empty only on message-text sites); results are "
         "bounded: sizes/unwindings are listed per query in the evidence file; counterexamples are replayed against "
         "the real build (dev and release) before being reported")

TOK_TECH = ("source-level symbolic execution (syn AST of the real MessageParser/utils/parse_from_block4/to_mt_string -> z3 formula "
            "with state merging) over a symbolic token list, bounded by N tokens with checked loop unwinding; models replayed against the real parser")

CLAIMED = {
    "C01": dict(
        technique=TOK_TECH + "; oracle: serialisation identity + independent layout automaton",
        text=("For each of the 30 types the solver decides, for every token list up to N fields (tags symbolic, contents "
              "uninterpreted), that acceptance implies the serialised tag sequence equals the input sequence (no token skipped, "
              "dropped, reordered or re-tagged) and that every accepted sequence belongs to the independently written layout "
              "language (unknown tag, duplicate, misplaced, trailing or extra fields are rejected)."),
        design_ref="DESIGN.md §4 C01"),
    "C02": dict(
        technique=TOK_TECH + "; field level: source-level symbolic execution of parse and to_swift_string of 28 field types on symbolic texts (z3 strings), witnesses replayed on the real parsers",
        text=("Message level: token-level identity of parse∘serialise for all token lists up to N fields implies that re-parsing "
              "the output yields the same slots and the same text; field level: parse(ser(parse(s))) = parse(s), serialisation a fixed "
              "point and no input line dropped, for every text of up to 6 lines x 40 characters, for the 28 field types the solver decides."),
        design_ref="DESIGN.md §4 C02"),
    "C03": dict(
        technique=TOK_TECH + "; oracle: Glushkov automaton of an independent layout specification encoded in SMT",
        text=("For every token list in the documented layout language of a type (all optional subsets, options, repetitions "
              "within N tokens) with canonical contents, the solver shows the real layout code accepts it and reproduces it."),
        design_ref="DESIGN.md §4 C03"),
    "C09": dict(
        technique=TOK_TECH + "; deletion modelled by a ghost step of the layout automaton, invalid content by one false ok-bit",
        text=("For every layout-valid list with one mandatory occurrence deleted, the real code rejects with an error naming "
              "the tag and type; with exactly one invalid content, InvalidFieldFormat carries that tag and content."),
        design_ref="DESIGN.md §4 C09"),
    "C14": dict(
        technique=TOK_TECH + "; option enums' parse_with_variant executed from source, serialiser tags read from to_swift_string",
        text=("In every message position, for every option letter the detection code can return, the variant built by the "
              "real parse_with_variant is serialised under the tag that was read, or the field is rejected."),
        design_ref="DESIGN.md §4 C14"),
    "C04": dict(
        technique="source-level symbolic execution of the real validate_network_rules (syn AST -> z3: strings, Float64, presence bits) on a symbolic message instance, compared with independent reference rule models; models replayed through serde JSON against the real library",
        text=("For 27 of the 30 types (all that have rules, minus MT192/MT200 whose rule code is not encodable) the solver decides, for every "
              "message instance with up to K occurrences of each repeating part, that each documented error code is reported iff the "
              "reference model of the rule says the rule is violated, and that nothing undocumented is reported."),
        design_ref="DESIGN.md §4 C04"),
    "C05": dict(
        technique="Kani/CBMC bounded model checking of the compiled primitive validators against byte-level reference predicates (all UTF-8 inputs up to the stated size) + source-level symbolic execution of 26 single-line field parsers against the format documented in their doc comment (compiled to a z3 regular expression)",
        text=("Solver verdict over every UTF-8 string up to the stated length for the character-class, length, BIC and currency "
              "validators (accept iff in the documented class, no panic); for 26 field types, over every ASCII string up to 60 characters: "
              "accepted implies in the documented format (recorded leniencies excluded by their tolerated language). The other field types "
              "and the reject-inside-format direction are outside the claim."),
        design_ref="DESIGN.md §4 C05"),
    "C06": dict(
        technique="Kani/CBMC over all 26^3 currency codes (precision table vs ISO 4217 reference) and all short strings (currency shape, commodity codes) + source-level symbolic execution of parse_amount with str::parse::<f64> replaced by its documented grammar",
        text=("The currency precision table and currency validators are decided exhaustively; every amount text parse_amount accepts "
              "(up to 40 characters) is digits with at most one decimal separator. The numeric value (f64 parsing / formatting, "
              "value preservation, decimal-count check) is outside the claim."),
        design_ref="DESIGN.md §4 C06"),
    "C07": dict(
        technique="Kani/CBMC panic, overflow and unwinding obligations on the leaf parsers over all UTF-8 inputs up to the stated size + loop-progress obligations of all 30 layout functions, slice/unwrap panic obligations of 39 field parsers and unwinding assertions of extract_block (source-level symbolic execution, z3)",
        text=("No panic and bounded loops for every input up to the stated sizes on date/time, character-class, BIC, currency, header and "
              "tokeniser kernels; every loop of every parse_from_block4 consumes a token per iteration (no hang); no out-of-range slice or "
              "unwrap on None in 39 single-line field parsers (ASCII input up to 60 characters); extract_block terminates on five message templates."),
        design_ref="DESIGN.md §4 C07"),
    "C08": dict(
        technique="source-level symbolic execution of the custom serde codec modules (z3 strings/ints, chrono model) for all dates 1950-2049 and all clock times",
        text=("Kernel only: deserialize(serialize(v)) == v for the four hand-written date/time codecs; derived serde and the "
              "plugin paths are stated as outside the claim."),
        design_ref="DESIGN.md §4 C08"),
    "C10": dict(
        technique="Kani/CBMC on BasicHeader/ApplicationHeader::parse (components = slices at documented offsets, wrong length/direction rejected, no panic) + source-level symbolic execution of the four headers' parse and Display and of extract_block / find_matching_brace on structured texts",
        text=("Header parsing decided for all inputs of the fixed layouts' lengths; every documented block-3/5 tag held is written; "
              "Display(parse(s)) = s for blocks 1 and 2 and for blocks 3 / 5 holding one recognised tag in a documented shape; "
              "extract_block returns exactly the text between a block's delimiters on five message templates with symbolic contents. "
              "Message assembly (to_mt_message) is outside the claim."),
        design_ref="DESIGN.md §4 C10"),
    "C11": dict(
        technique="Kani/CBMC of the compiled date/time parsers and every date-bearing field parser vs a reference calendar (all six-digit strings) + source-level symbolic execution of the serialisers and JSON codecs (all dates 1950-2049)",
        text=("Solver verdict over every byte string of the stated lengths for parse_date_yymmdd / parse_time_hhmm, over all 10^6 digit "
              "strings for each date-bearing field (same digits, same date, calendar-valid only), and over all dates of the pivot window "
              "for to_swift_string (digits reproduced) and the JSON codecs (same meaning in JSON)."),
        design_ref="DESIGN.md §4 C11"),
    "C12": dict(
        technique="dispatch tables extracted from source (syn) and decided by z3 for all 1000 three-digit codes + source-level symbolic execution of the validate plugin on every ParseError variant; witnesses replayed through the real plugin handlers",
        text=("Every dispatch table of the five entry points routes each code 000-999 to the type whose message_type() is that code, "
              "unknown codes to 'unsupported'; typed parse checks the type (T03) before parsing block 4; validate_mt never reports a "
              "message that parse_auto rejects (unsupported type included) as valid."),
        design_ref="DESIGN.md §4 C12"),
    "C13": dict(
        technique="source-level symbolic execution of validate_network_rules with a symbolic stop_on_first_error flag and symbolic HashSet iteration orders, and of the three validation wrappers over an uninterpreted body result; decided by z3; replayed natively (typed API, parse_auto, plugin handler; 48 repeated validations)",
        text=("For every message instance (K occurrences) of 26 types: the stop-on-first list is non-empty iff the full list is, "
              "its first positions equal the full list's, and a second validation constructs the same errors whatever order the hash "
              "sets are iterated in; SwiftMessage::validate, ParsedSwiftMessage::validate and the validate plugin report exactly the "
              "body's list for each of the 30 types."),
        design_ref="DESIGN.md §4 C13"),
    "C16": dict(
        technique="source-level symbolic execution of parse_block4_fields / normalize_field_tag on structured block-4 texts with symbolic field contents of FieldConsumptionTracker on a symbolic set of marks, and of split_into_sequences / parse_repetitive_sequence on a symbolic tag sequence (z3) + Kani/CBMC on the tag normalisation / base-tag helpers (all short strings)",
        text=("Five block-4 templates with symbolic contents: every field appears exactly once under its tag with its content and the "
              "stamps increase; the tracker, after any subset of three occurrences was marked in any order, hands out the first unmarked "
              "occurrence; split_into_sequences (5 configurations) and parse_repetitive_sequence (3 markers) put every one of N = 8 (thorough 12) "
              "occurrences with symbolic tags into exactly one sequence / item; normalize_field_tag and extract_base_tag decided for all inputs up to 4-5 bytes against the documented rule. "
              "The constrained sequential lookups are outside the claim."),
        design_ref="DESIGN.md §4 C16"),
    "C17": dict(
        technique="source-level symbolic execution of the classification predicates and the plugin's method selection on symbolic field-72 lines (z3 strings) and finite MUR/119 candidate sets; replayed natively",
        text=("reject / return / cover per type equal the presence of the documented code words (same words in MT103/202/205); "
              "message-level predicates add the MUR; the plugin's method equals the priority chain over those predicates."),
        design_ref="DESIGN.md §4 C17"),

}

NOT_YET = {}

NA = {
    "C15": "quantifies over draws of datafake-rs/rand generators rendered through serde_json and the plugin pipeline; "
           "neither Kani nor a source-level SMT encoding can represent those generators without inventing a model of them",
}


def main():
    props = [json.loads(l) for l in open(os.path.join(VERIF, "properties.jsonl"))]
    checks, na = [], []
    for p in props:
        pid = p["id"]
        if pid in CLAIMED:
            c = CLAIMED[pid]
            checks.append({
                "property_id": pid,
                "quick_cmd": "./check %s --tier quick" % pid,
                "thorough_cmd": "./check %s --tier thorough" % pid,
                "evidence_file": "/verif/evidence/%s.json" % pid,
                "replay_cmd_template": "./check %s --replay {path}" % pid,
                "engine": c.get("engine", "kani+mtsym"),
                "level_claimed": {"category": "model_checking", "text": c["text"], "design_ref": c["design_ref"]},
                "level_note": c.get("note", TRUST),
                "technique": c["technique"],
            })
        elif pid in NA:
            na.append({"property_id": pid, "reason": NA[pid]})
        else:
            na.append({"property_id": pid, "reason": NOT_YET.get(pid, "check not built yet in this round (planned in DESIGN.md §4); not claimed until its quick command exists")})
    m = {
        "version": 1,
        "setup_cmd": "./setup.sh",
        "hooks": {
            "guard": "swiftmt_verif",
            "enable": "none needed: all checks use public items of the crate; reserved flag --cfg swiftmt_verif",
            "baseline_off_cmd": "cd /repo && cargo test --workspace --no-fail-fast --offline",
            "source_commits": [],
            "add_only": True,
        },
        "engines": [
            {"name": "kani", "path": "/verif/kani", "serves_properties": sorted(CLAIMED),
             "kind_free_text": "Kani 0.68 / CBMC harness crate (path dependency on /repo, rebuilt every run); harness bodies in /verif/harness are shared with the native replayer"},
            {"name": "mtsym", "path": "/verif/mtsym", "serves_properties": [],
             "kind_free_text": "source-level symbolic execution: syn-based extractor of the stylised layout/serialiser/dispatch code -> SMT (z3, cvc5 cross-check)"},
            {"name": "replay", "path": "/verif/replay", "serves_properties": sorted(CLAIMED),
             "kind_free_text": "native replayer of solver witnesses against the real library (dev and release)"},
        ],
        "checks": checks,
        "not_applicable": na,
        "notes": "Exit 2 from a check means inconclusive (timeout/OOM/unsupported construct/non-reproducing witness) and is never a pass.",
    }
    with open(os.path.join(VERIF, "MANIFEST.json"), "w") as f:
        json.dump(m, f, indent=1)
        f.write("\n")


if __name__ == "__main__":
    main()
