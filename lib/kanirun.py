"""E1: run Kani/CBMC harnesses from /verif/kani against /repo's current tree, decode witnesses."""
import json
import os
import re
import shutil
import time

from common import (ENV, SCRATCH, VERIF, gen_kf_rs, gen_registry, log, sh, sync_lock)

KANI_CRATE = os.path.join(VERIF, "kani")
MEM_KB = int(os.environ.get("VERIF_KANI_MEM_KB", str(14 * 1024 * 1024)))


def target_dir(tag):
    base = os.path.join(SCRATCH, "kani-main")
    d = os.path.join(SCRATCH, "kani-%s" % tag)
    if not os.path.isdir(d) and os.path.isdir(base) and d != base:
        # seed from the warmed directory (dependencies already compiled for Kani)
        try:
            shutil.copytree(base, d, symlinks=True)
        except Exception:
            shutil.rmtree(d, ignore_errors=True)
    return d


def _cmd(tdir, harnesses, jobs, timeout_s, export_json=None, playback=False):
    c = ["cargo", "kani", "-Z", "stubbing", "-Z", "unstable-options", "--target-dir", tdir, "--exact",
         "--output-format", "terse"]
    for h in harnesses:
        c += ["--harness", "proofs::" + h]
    if playback:
        c += ["-Z", "concrete-playback", "--concrete-playback=print"]
    else:
        c += ["-j", str(jobs)]
    if timeout_s:
        c += ["--harness-timeout", "%ds" % int(timeout_s)]
    if export_json:
        c += ["--export-json", export_json]
    # per-process address-space cap: an OOM shows up as an error, never as a pass
    return ["bash", "-c", "ulimit -v %d; exec \"$@\"" % MEM_KB, "kani"] + c


def prepare():
    gen_kf_rs()
    gen_registry()
    sync_lock(KANI_CRATE)


def run(harnesses, tag, jobs=12, timeout_s=600):
    """Returns {name: {status, failed:[{desc,function,file,line}], covers_sat, covers_unsat, time_s, stats}}.
    status in success | failure | timeout | error."""
    prepare()
    tdir = target_dir(tag)
    os.makedirs(os.path.join(SCRATCH, "tmp"), exist_ok=True)
    out_json = os.path.join(SCRATCH, "tmp", "kani-%s-%d.json" % (tag, os.getpid()))
    if os.path.exists(out_json):
        os.unlink(out_json)
    jobs = max(1, min(jobs, len(harnesses)))
    t0 = time.time()
    overall = 600 + (timeout_s + 60) * ((len(harnesses) + jobs - 1) // jobs)
    rc, out = sh(_cmd(tdir, harnesses, jobs, timeout_s, export_json=out_json), cwd=KANI_CRATE, timeout=overall)
    wall = time.time() - t0
    results = {h: {"status": "error", "failed": [], "covers_sat": 0, "covers_unsat": 0, "time_s": 0.0,
                   "stats": {}, "detail": "no result reported"} for h in harnesses}
    if "error: could not compile" in out or "error[E" in out:
        log(out[-5000:])
        for h in harnesses:
            results[h]["detail"] = "harness crate does not compile against /repo"
        return results, out, wall
    data = None
    try:
        with open(out_json) as f:
            data = json.load(f)
    except Exception:
        log("[kani] no JSON export; rc=%s\n%s" % (rc, out[-3000:]))
        return results, out, wall
    finally:
        if os.path.exists(out_json):
            os.unlink(out_json)
    stats = {}
    for c in data.get("cbmc", []):
        stats[c["harness_id"]] = c.get("cbmc_stats", {})
    pd = {p["harness_id"]: p["property_details"] for p in data.get("property_details", [])}
    ed = {e["harness_id"]: e for e in data.get("error_details", [])}
    for r in data.get("verification_results", {}).get("results", []):
        name = r["harness_id"].split("::")[-1]
        if name not in results:
            continue
        res = results[name]
        res["time_s"] = r.get("duration_ms", 0) / 1000.0
        res["stats"] = stats.get(r["harness_id"], {})
        failed, csat, cunsat, undet = [], 0, 0, 0
        for c in r.get("checks", []):
            st = c.get("status", "")
            cat = c.get("category", "")
            if cat == "cover" or st in ("Satisfied", "Unsatisfiable"):
                if st == "Satisfied":
                    csat += 1
                elif st == "Unsatisfiable" or st == "Unreachable":
                    cunsat += 1
                    res.setdefault("uncovered", []).append(c.get("description", ""))
                continue
            if st == "Failure":
                failed.append({"desc": c.get("description", ""), "function": c.get("function", ""),
                               "file": c.get("location", {}).get("file", ""),
                               "line": c.get("location", {}).get("line", ""), "category": cat})
            elif st in ("Undetermined", "Unknown"):
                undet += 1
        res["failed"], res["covers_sat"], res["covers_unsat"] = failed, csat, cunsat
        p = pd.get(r["harness_id"], {})
        res["n_checks"] = p.get("total_properties", len(r.get("checks", [])))
        status = r.get("status", "")
        e = ed.get(r["harness_id"], {})
        if status == "Success" and not failed and undet == 0:
            res["status"] = "success"
            res["detail"] = ""
        elif failed:
            res["status"] = "failure"
            res["detail"] = ""
        else:
            et = (e.get("error_type") or "") + " " + (e.get("exit_status") or "")
            res["status"] = "timeout" if "imeout" in et else "error"
            res["detail"] = et.strip() or status
    return results, out, wall


_VEC = re.compile(r"^\s*vec!\[([0-9,\s]*)\],?\s*$")


def playback(harness, tag, timeout_s=1800):
    """Re-run one failed harness with concrete playback; return list of witnesses (each a list of byte lists)."""
    prepare()
    tdir = target_dir(tag)
    rc, out = sh(_cmd(tdir, [harness], 1, timeout_s, playback=True), cwd=KANI_CRATE, timeout=timeout_s + 600)
    wits, cur, label, labels = [], None, None, []
    for line in out.splitlines():
        m = re.search(r"/// Check for `([a-z_]+)`: (.*)$", line)
        if m:
            label = (m.group(1), m.group(2).strip().strip('"'))
        if "let concrete_vals" in line:
            cur = []
            continue
        if cur is not None:
            m = _VEC.match(line)
            if m:
                body = m.group(1).strip()
                cur.append([int(x) for x in body.split(",") if x.strip()] if body else [])
            elif line.strip().startswith("];"):
                wits.append(cur)
                labels.append(label)
                cur = None
    return wits, labels, out
