"""Generic E1 (Kani) part of a property check: harness selection, verdicts, vacuity, witness replay."""
import json
import os
import random

import kanirun
from common import (EXIT_INCONCLUSIVE, EXIT_OK, EXIT_VIOLATION, is_failure, load_known_findings, log,
                    replay_batch, write_replay_file)
import gen

STD_STUBS = [
    "stub: core::slice::memchr::{memchr,memrchr} -> naive byte loops (equivalent)",
    "stub: core::unicode::unicode_data::{alphabetic,n,uppercase,lowercase,white_space}::lookup -> nondeterministic bool "
    "(over-approximation; only reached for non-ASCII code points)",
    "stub: alloc::fmt::format -> String::new() (only in harnesses whose target reaches format! solely to build error text)",
    "results are matched and mem::forget-ed in harnesses (ParseError has recursive drop glue)",
    "Kani models the dev profile (overflow checks on); witnesses are replayed natively in dev and release",
]


def combine(a, b):
    """Exit-code lattice: a confirmed violation dominates, then inconclusive, then ok."""
    if EXIT_VIOLATION in (a, b):
        return EXIT_VIOLATION
    if EXIT_INCONCLUSIVE in (a, b):
        return EXIT_INCONCLUSIVE
    return EXIT_OK


def known_for(prop, engine=None):
    out = []
    for e in load_known_findings().get("findings", []):
        if e["property"] == prop and (engine is None or e.get("engine") == engine):
            out.append(e)
    return out


def report_known_kani(prop, ev):
    """Replay the stored witness of every listed finding; print KNOWN-FINDING for those that still fail."""
    ents = [e for e in known_for(prop, "kani")]
    if not ents:
        return
    items = [{"harness": e["harness"], "vals": e["vals"]} for e in ents]
    outs = replay_batch(items, "dev")
    for e, o in zip(ents, outs):
        ev.replayed += 1
        if is_failure(o):
            print("KNOWN-FINDING: property=%s %s: %s" % (prop, e["key"], e["description"]), flush=True)
            ev.known.append({"key": e["key"], "harness": e["harness"], "outcome": o})
        else:
            log("[known] stale entry %s (witness no longer fails: %s)" % (e["key"], o))
            ev.known.append({"key": e["key"], "stale": True, "outcome": o})


def select(prop, tier, seed):
    # tier=manual: harnesses kept for reference that do not finish within the memory / time caps of this sandbox (DESIGN §8)
    hs = [h for h in gen.harnesses_by_prop().get(prop, []) if h.get("tier", "quick") != "manual"
          and (tier == "thorough" or h.get("tier", "quick") == "quick")]
    rnd = random.Random(seed)
    hs = list(hs)
    rnd.shuffle(hs)  # VERIF_SEED only changes scheduling order; verdicts are seed independent
    return hs


def run_e1(prop, tier, seed, ev, jobs=12):
    """Returns exit code contribution; prints VIOLATION lines itself."""
    hs = select(prop, tier, seed)
    if not hs:
        return EXIT_OK
    report_known_kani(prop, ev)
    names = [h["name"] for h in hs]
    by = {h["name"]: h for h in hs}
    tmax = max(h.get("timeout", 600) for h in hs)
    if tier == "thorough":
        tmax = max(tmax, 1800)
    log("[kani] %s: %d harnesses, timeout %ds each" % (prop, len(names), tmax))
    results, raw, wall = kanirun.run(names, tag=prop, jobs=jobs, timeout_s=tmax)
    rc = EXIT_OK
    for a in STD_STUBS:
        if a not in ev.assumptions:
            ev.assumptions.append(a)
    for n in names:
        r = results[n]
        h = by[n]
        for f in h.get("functions", []):
            ev.functions.add(f)
        if h.get("bound"):
            ev.bounds.append("%s: %s" % (n, h["bound"]))
        for a in h.get("assumes", []):
            ev.assumptions.append("%s: %s" % (n, a))
        q = {"engine": "kani/cbmc", "name": n, "bound": h.get("bound", ""), "verdict": r["status"],
             "time_s": round(r["time_s"], 2), "checks": r.get("n_checks", 0), "covers_reached": r["covers_sat"],
             "covers_unreached": r["covers_unsat"], "states": r.get("n_checks", 0),
             "transitions": int((r.get("stats") or {}).get("vccs_generated", 0) or 0),
             "nontrivial": r["covers_sat"] > 0 and r["covers_unsat"] == 0}
        ev.add_query(**q)
        if r["status"] == "success":
            if r["covers_unsat"] > 0:
                log("[kani] %s: VACUOUS — cover(s) not reached: %s" % (n, r.get("uncovered")))
                rc = combine(rc, EXIT_INCONCLUSIVE)
            continue
        if r["status"] in ("timeout", "error"):
            log("[kani] %s: %s (%s) — inconclusive" % (n, r["status"], r.get("detail")))
            ev.not_encoded.append("%s: %s %s" % (n, r["status"], r.get("detail", "")))
            rc = combine(rc, EXIT_INCONCLUSIVE)
            continue
        # failure: obtain concrete witnesses and replay them natively before reporting
        log("[kani] %s FAILED: %s" % (n, "; ".join("%s @%s:%s" % (f["desc"][:80], os.path.basename(f["file"]), f["line"])
                                                     for f in r["failed"][:4])))
        wits, labels, pout = kanirun.playback(n, tag=prop)
        confirmed = None
        for prof in ("dev", "release"):
            outs = replay_batch([{"harness": n, "vals": w} for w in wits], prof)
            for w, o in zip(wits, outs):
                ev.replayed += 1
                if is_failure(o) and confirmed is None:
                    confirmed = (w, o, prof)
        if confirmed is None:
            log("[kani] %s: no witness reproduced natively (%d witnesses) — encoding/stub artefact, inconclusive" % (n, len(wits)))
            ev.not_encoded.append("%s: solver counterexample did not replay against the real build" % n)
            rc = combine(rc, EXIT_INCONCLUSIVE)
            continue
        w, o, prof = confirmed
        payload = {"property": prop, "engine": "kani", "harness": n, "vals": w, "native_outcome": o,
                   "profile": prof, "failed_checks": r["failed"][:6]}
        path = write_replay_file(prop, payload)
        ev.samples.append({"harness": n, "witness_bytes": w, "native_outcome": o})
        ev.violations += 1
        print("VIOLATION property=%s replay=%s" % (prop, path), flush=True)
        log("   witness %s -> %s" % (w, o))
        rc = combine(rc, EXIT_VIOLATION)
    return rc


def replay_file(path):
    payload = json.load(open(path))
    if payload.get("engine") == "kani":
        res = {}
        for prof in ("dev", "release"):
            res[prof] = replay_batch([{"harness": payload["harness"], "vals": payload["vals"]}], prof)[0]
        print(json.dumps({"harness": payload["harness"], "vals": payload["vals"], "outcomes": res}, indent=1))
        return EXIT_VIOLATION if any(is_failure(o) for o in res.values()) else EXIT_OK
    return None
