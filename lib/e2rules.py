"""E2 struct-level part: C04 (rule codes), C13 (validation modes), C17 (classification)."""
import json
import os
import subprocess

from common import EXIT_INCONCLUSIVE, EXIT_OK, EXIT_VIOLATION, VERIF, load_known_findings, log, write_replay_file
from e1 import combine

PY = "python3-vt"

# message types whose validation code uses string surgery the encoder does not model (stated, not hidden)
NOT_ENCODABLE = {
    "MT192": "validate_network_rules splits a narrative line on '/' (str::split on a symbolic string)",
    "MT200": "validate_network_rules extracts code words with str::find(closure)/to_uppercase on symbolic text",
}

ASSUME = [
    "struct-level symbolic instance: every Option presence, Vec length <= K, String (z3 sequence), f64 (z3 Float64, finite, "
    "0 <= x <= 1e15), enum variant is symbolic; NaiveDate/NaiveTime components are opaque; HashMap fields are empty",
    "validate_network_rules / classification predicates and everything they call are executed from their current source "
    "(syn AST) by the symbolic interpreter; the reference rule models in specs/rules/*.py are written from the documented rule texts",
    "every model is rendered as the serde JSON of the message struct, deserialised by the real library and validated natively "
    "before it is reported",
]


def _run(module, func, args):
    code = ("import sys, json; sys.path.insert(0, %r); import %s as M\n"
            "json.dump(M.%s(**json.load(sys.stdin)), sys.stdout)\n" % (os.path.join(VERIF, "mtsym"), module, func))
    p = subprocess.run([PY, "-c", code], input=json.dumps(args), stdout=subprocess.PIPE, stderr=subprocess.PIPE, text=True, timeout=3 * 3600)
    if p.returncode != 0:
        log(p.stderr[-4000:])
        raise RuntimeError("mtsym %s.%s failed" % (module, func))
    return json.loads(p.stdout[p.stdout.index("["):])


def run_rules(prop, tier, seed, ev, jobs):
    K = 2 if tier == "quick" else 3
    results = _run("rulecheck", "run_all", {"K": K, "jobs": jobs})
    known = {(k["type"], k["code"]): k for k in load_known_findings().get("findings", []) if k.get("engine") == "mtsym-rules"}
    rc = EXIT_OK
    for a in ASSUME:
        if a not in ev.assumptions:
            ev.assumptions.append(a)
    ev.functions.update(["messages::mt*::validate_network_rules (and the private validate_* rule functions they call)",
                         "errors::SwiftValidationError::{content_error,format_error,business_error,relation_error,general_error}"])
    ev.bounds.append("symbolic message instances with at most K=%d occurrences of every repeating field / sequence" % K)
    for r in results:
        q = r["query"]
        is_c13 = q.startswith("stop-on-first") or q.startswith("re-validation")
        if prop == "C04" and is_c13:
            continue
        if prop == "C13" and not is_c13 and r["verdict"] not in ("not-encoded", "error"):
            continue
        v = r["verdict"]
        ev.add_query(engine="mtsym/z3", name="%s:%s" % (r["type"], q), bound="K=%s" % r.get("K", K), verdict=v,
                     time_s=r.get("time_s", 0), states=1, transitions=1, nontrivial=True)
        ev.replayed += len(r.get("models_tried", []) or [])
        if v == "unsat":
            continue
        if v == "unsat-bounded":
            ev.outside.append("%s %s: %s" % (r["type"], q, r.get("bound", "")))
            continue
        if v == "skipped":
            ev.outside.append("%s %s: %s" % (r["type"], q, r.get("detail", "")))
            continue
        if v == "not-encoded" and r["type"] in NOT_ENCODABLE and q.startswith("encode"):
            ev.outside.append("%s: %s (%s)" % (r["type"], NOT_ENCODABLE[r["type"]], r.get("detail", "")))
            continue
        code = (r.get("witness", {}).get("extra") or {}).get("code")
        if v == "sat":
            w = r["witness"]
            kf = known.get((r["type"], code)) if code else None
            if kf is not None and "outside the recorded deviation" in q:
                kf = None          # a deviation outside the recorded region is a different violation
            if kf is not None and prop in kf.get("properties", ["C04"]):
                print("KNOWN-FINDING: property=%s %s: %s" % (prop, kf["key"], kf["description"]), flush=True)
                ev.known.append({"key": kf["key"], "why": w.get("why")})
                continue
            payload = {"property": prop, "engine": "mtsym-rules", "type": r["type"], "query": q, "json": w["json"], "why": w["why"], "real": w.get("real")}
            path = write_replay_file(prop, payload)
            ev.samples.append({"type": r["type"], "query": q, "message_json": w["json"], "real_outcome": w["why"]})
            ev.violations += 1
            print("VIOLATION property=%s replay=%s" % (prop, path), flush=True)
            log("   %s %s :: %s" % (r["type"], q, w["why"]))
            rc = combine(rc, EXIT_VIOLATION)
        else:
            log("[rules] %s %s: %s %s" % (r["type"], q, v, str(r.get("detail", ""))[:300]))
            ev.not_encoded.append("%s %s: %s %s" % (r["type"], q, v, str(r.get("detail", ""))[:200]))
            rc = combine(rc, EXIT_INCONCLUSIVE)
    stale = [k for (t, c), k in known.items() if prop in k.get("properties", ["C04"]) and not any(e.get("key") == k["key"] for e in ev.known)]
    for k in stale:
        log("[known] stale entry %s (no reproducing deviation found any more)" % k["key"])
    if not ev.samples:
        ev.samples.append({"example_query": "MT103:code-D75-reported-iff-rule-violated", "meaning": "exists message instance: (D75 in validate_network_rules(false)) != (33B/36 rule C1 violated) -> unsat"})
    ev.outside.append("more than K occurrences of a repeating field or sequence; date/time components; messages only constructible "
                      "with non-finite or negative amounts")
    return rc


def run_class(prop, tier, seed, ev, jobs):
    results = _run("classcheck", "run", {"K": 2 if tier == "quick" else 3})
    rc = EXIT_OK
    for a in ASSUME:
        if a not in ev.assumptions:
            ev.assumptions.append(a)
    ev.assumptions.append("block-3 tags 108 (MUR) and 119 range over finite candidate sets (exact, lower/mixed case, embedded, look-alike, empty, absent)")
    ev.functions.update(["messages::{mt103,mt202,mt205}::{has_reject_codes,has_return_codes,is_cover_message,is_stp_compliant}",
                         "swift_message::SwiftMessage::{has_reject_codes,has_return_codes,is_cover_message,is_stp_message}",
                         "plugin::parse — the `method = ...` selection expressions"])
    for r in results:
        v = r["verdict"]
        ev.add_query(engine="mtsym/z3", name="%s:%s" % (r["type"], r["query"]), bound="K=2 field-72 lines", verdict=v,
                     time_s=r.get("time_s", 0), states=1, transitions=1, nontrivial=True)
        if v == "unsat":
            continue
        if v == "sat":
            w = r.get("witness") or {}
            ev.replayed += 1
            payload = {"property": prop, "engine": "mtsym-class", "type": r["type"], "query": r["query"], "json": w.get("json"),
                       "user_header": w.get("user_header"), "why": w.get("why"), "real": r.get("real")}
            path = write_replay_file(prop, payload)
            ev.samples.append({"type": r["type"], "query": r["query"], "witness": w})
            ev.violations += 1
            print("VIOLATION property=%s replay=%s" % (prop, path), flush=True)
            log("   %s %s :: %s" % (r["type"], r["query"], w.get("why")))
            rc = combine(rc, EXIT_VIOLATION)
        else:
            log("[class] %s %s: %s %s" % (r["type"], r["query"], v, str(r.get("detail", ""))[:300]))
            ev.not_encoded.append("%s %s: %s" % (r["type"], r["query"], v))
            rc = combine(rc, EXIT_INCONCLUSIVE)
    if not ev.samples:
        ev.samples.append({"example_query": "MT103:body:reject-iff-reject-code-word", "meaning": "exists field-72 lines: has_reject_codes() != (some line contains /REJT/ or /RJT/) -> unsat"})
    ev.outside.append("field 72 with more than K lines; MUR / 119 values outside the candidate sets; the dataflow plumbing around the method selection")
    return rc


def run_wrap(prop, tier, seed, ev, jobs):
    """validation wrappers (SwiftMessage::validate, ParsedSwiftMessage::validate, the validate_mt plugin) vs the body's own list"""
    results = _run("wrapcheck", "run", {"K": 2 if tier == "quick" else 3})
    rc = EXIT_OK
    ev.assumptions.append("wrappers are executed from source with the body's validate_network_rules(false) as an uninterpreted list of "
                          "n <= K errors with arbitrary codes, and SwiftParser::parse_auto as an arbitrary Ok(variant) / Err(ParseError variant); "
                          "a satisfiable query is confirmed by running the typed API, parse_auto and the plugin (dataflow-rs handler, polled "
                          "to completion) on a real message")
    ev.functions.update(["swift_message::SwiftMessage::validate", "parsed_message::ParsedSwiftMessage::validate",
                         "plugin::validate::Validate::{validate_mt_message,validate_network_rules}"])
    for r in results:
        v = r["verdict"]
        ev.add_query(engine="mtsym/z3", name="%s:%s" % (r["type"], r["query"]), bound="K=%s body errors" % r.get("K", 2), verdict=v,
                     time_s=r.get("time_s", 0), states=1, transitions=1, nontrivial=True)
        if v == "unsat":
            if r.get("note"):
                ev.outside.append("%s: %s" % (r["query"], r["note"]))
            continue
        if v == "sat":
            w = r.get("witness") or {}
            ev.replayed += 1
            payload = {"property": prop, "engine": "mtsym-wrap", "type": r["type"], "query": r["query"], "why": w.get("why"), "detail": w.get("detail")}
            path = write_replay_file(prop, payload)
            ev.samples.append({"type": r["type"], "query": r["query"], "witness": w})
            ev.violations += 1
            print("VIOLATION property=%s replay=%s" % (prop, path), flush=True)
            log("   %s %s :: %s" % (r["type"], r["query"], w.get("why")))
            rc = combine(rc, EXIT_VIOLATION)
        else:
            log("[wrap] %s %s: %s %s" % (r["type"], r["query"], v, str(r.get("detail", ""))[:300]))
            ev.not_encoded.append("%s %s: %s" % (r["type"], r["query"], v))
            rc = combine(rc, EXIT_INCONCLUSIVE)
    ev.outside.append("the dataflow plumbing around validate_mt_message (reading the payload, storing the result); bodies with more than K errors")
    return rc


def replay_file(path):
    from common import replay_batch
    payload = json.load(open(path))
    eng = payload.get("engine")
    if eng == "mtsym-wrap":
        text = (payload.get("detail") or {}).get("text", "")
        outs = replay_batch([{"op": "auto", "text": text}, {"op": "plugin_validate", "text": text}], "dev")
        outs_r = replay_batch([{"op": "auto", "text": text}, {"op": "plugin_validate", "text": text}], "release")
        print(json.dumps({"claimed": payload["why"], "text": text, "real_dev": outs, "real_release": outs_r}, indent=1)[:5000])
        return EXIT_VIOLATION
    if eng == "mtsym-rules":
        out = replay_batch([{"op": "validate_json", "type": payload["type"], "json": payload["json"]}], "dev")[0]
        out_r = replay_batch([{"op": "validate_json", "type": payload["type"], "json": payload["json"]}], "release")[0]
        print(json.dumps({"claimed": payload["why"], "real_dev": out, "real_release": out_r}, indent=1)[:5000])
        return EXIT_VIOLATION
    if eng == "mtsym-class":
        out = replay_batch([{"op": "classify_message_json", "type": payload["type"], "json": payload["json"], "user_header": payload.get("user_header")}], "dev")[0]
        print(json.dumps({"claimed": payload["why"], "real": out}, indent=1)[:5000])
        return EXIT_VIOLATION
    return None
