"""Reference model of the SR2025 network rules of MT940 (Customer Statement Message), restated from the rule
texts (doc comments of src/messages/mt940.rs / SWIFT user handbook), on the symbolic instance view `I`."""


def expected(I, z3, m):
    from rulecheck import And, Or, Not
    pre = lambda it: z3.SubString(it.f("currency").s(), 0, 2)     # first two characters of the currency code
    # every occurrence of 60a, 62a, 64, 65 with the condition under which it is there
    occ = [(True, pre(I.f("field_60f"))), (True, pre(I.f("field_62f"))),
           (I.f("field_64").present(), pre(I.f("field_64").some()))]
    occ += [(g, pre(it)) for g, it in I.f("field_65").items()]
    x = {}
    # C1 (C24): a field 86 of the repetitive sequence must be preceded by a field 61 (same message).
    # The struct attaches every such 86 to its 61 (MT940StatementLine), so no instance can violate it.
    x["C24"] = z3.BoolVal(False)
    # C2 (C27): the first two characters of the currency code must be the same for all occurrences
    x["C27"] = Or(*[And(g1, g2, p1 != p2) for i, (g1, p1) in enumerate(occ) for (g2, p2) in occ[i + 1:]])
    return x
