"""Reference model of the SR2025 network rules of MT202 / MT202 COV as documented (rule texts in the doc
comments of src/messages/mt202.rs and the SWIFT user handbook).

C1 (C81): if field 56a is present in sequence A, then field 57a must also be present in sequence A.
C2 (C68): if field 56a is present in sequence B, then field 57a must also be present in sequence B (COV only;
          a message without sequence B has no 56a in sequence B)."""


def expected(I, z3, m):
    from rulecheck import And, Not
    x = {}
    x["C81"] = And(I.f("field_56").present(), I.f("field_57").absent())
    seq_b = I.f("sequence_b")
    b_present = seq_b.present()
    b56 = And(b_present, seq_b.some().f("intermediary").present())
    b57 = And(b_present, seq_b.some().f("account_with_institution").present())
    x["C68"] = And(b56, Not(b57))
    return x
