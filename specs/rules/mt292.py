"""Reference model of the SR2025 network rules of MT292 as documented (doc comments of src/messages/mt292.rs
and the SWIFT user handbook).

C1 (C25): field 79 or a copy of at least the mandatory fields of the original message or both must be present."""


def expected(I, z3, m):
    from rulecheck import And
    return {"C25": And(I.f("field_79").absent(), I.f("original_fields").absent())}
