"""Reference model of the SR2025 network validated rules of MT104 (Direct Debit and Request for Debit Transfer
Message), restated from the rule texts (SWIFT user handbook; the rule sentences are also quoted in the doc comments /
messages of src/messages/mt104.rs). Independent of the implementation: written on the symbolic instance view `I`
(mtsym/rulecheck.Inst). Returns {error code: z3 Bool "must be reported"}.

Sequences: A = general information (struct MT104), B = repetitive transaction details (MT104.transactions),
C = optional settlement details; C is identified by its mandatory first field 32B (MT104.field_32b).

Not expressible on the message body (and therefore not part of this model): C13 (C94) - field 119 of the user header
must contain RFDD exactly when field 23E of sequence A contains RFDD.
"""

SEQ_A_23E = ["AUTH", "NAUT", "OTHR", "RFDD", "RTND"]
SEQ_B_23E = ["AUTH", "NAUT", "OTHR"]
# C3: fields that may be given once for the whole message (A) or per transaction (B), never both
C3_FIELDS = [("field_21e", "field_21e"), ("field_26t", "field_26t"), ("field_52", "field_52"),
             ("field_71a", "field_71a"), ("field_77b", "field_77b"), ("instructing_party", "instructing_party_tx")]


def expected(I, z3, m):
    from rulecheck import And, Or, Not
    F = z3.Float64()
    rm = z3.RNE()
    CENT = z3.FPVal(0.01, F)
    tx = I.f("transactions").items()                     # [(guard, transaction)]
    hasA = lambda n: I.f(n).present()
    some_b = lambda pred: Or(*[And(g, pred(t)) for g, t in tx])          # in one or more occurrences of B
    every_b = lambda pred: And(*[Or(Not(g), pred(t)) for g, t in tx])    # in all occurrences of B
    has = lambda n: (lambda t: t.f(n).present())
    lacks = lambda n: (lambda t: Not(t.f(n).present()))
    b_exists = Or(*[g for g, _ in tx])

    a23 = I.f("field_23e")
    a23_code = a23.some().f("instruction_code")
    rfdd = And(a23.present(), a23_code.eq("RFDD"))
    rtnd = And(a23.present(), a23_code.eq("RTND"))
    seq_c = hasA("field_32b")

    x = {}

    # C1 (C75): 23E in A = RFDD -> 23E in every B; 23E in A <> RFDD -> 23E in no B; 23E not in A -> 23E in every B
    x["C75"] = Or(And(a23.present(), a23_code.eq("RFDD"), some_b(lacks("field_23e"))),
                  And(a23.present(), Not(a23_code.eq("RFDD")), some_b(has("field_23e"))),
                  And(a23.absent(), some_b(lacks("field_23e"))))

    # C2 (C76): the creditor (50a option A or K) is given either in A or in each occurrence of B, never in both and
    # never in neither ("each occurrence" of the mandatory sequence B: at least one occurrence carries it)
    cred_a = hasA("creditor")
    cred_each_b = And(b_exists, every_b(has("creditor_tx")))
    cred_some_b = some_b(has("creditor_tx"))
    ok_c2 = Or(And(cred_a, Not(cred_some_b)), And(Not(cred_a), cred_each_b))
    x["C76"] = Not(ok_c2)

    # C3 (D73): 21E, 26T, 52a, 71A, 77B, 50a (C or L): in A or in (one or more) B, not both
    x["D73"] = Or(*[And(hasA(a), some_b(has(b))) for a, b in C3_FIELDS])

    # C4 (D77): 21E in A needs the creditor in A; 21E in an occurrence of B needs the creditor in the same occurrence
    x["D77"] = Or(And(hasA("field_21e"), Not(cred_a)),
                  some_b(lambda t: And(t.f("field_21e").present(), Not(t.f("creditor_tx").present()))))

    # C5 (C82): field 72 present exactly when 23E of A contains RTND
    x["C82"] = rtnd != hasA("field_72")

    # C6 (D79): 71F in one or more B <-> 71F in C; same for 71G
    x["D79"] = Or(some_b(has("field_71f")) != hasA("field_71f"), some_b(has("field_71g")) != hasA("field_71g"))

    # C7 (D21): in each B with 33B: currency or amount (or both) differ between 33B and 32B
    def same_33b_32b(t):
        b33 = t.f("field_33b").some()
        return And(t.f("field_33b").present(),
                   b33.f("currency").s() == t.f("field_32b").f("currency").s(),
                   z3.fpEQ(b33.f("amount").fp(), t.f("field_32b").f("amount").fp()))
    x["D21"] = some_b(same_33b_32b)

    # C8 (D75): in any B: 33B present with a currency different from 32B -> 36 mandatory; in all other cases 36 not allowed
    def bad_36(t):
        need = And(t.f("field_33b").present(),
                   t.f("field_33b").some().f("currency").s() != t.f("field_32b").f("currency").s())
        return need != t.f("field_36").present()
    x["D75"] = some_b(bad_36)

    # sum of the amounts of fields 32B of sequence B (floating point, in message order)
    total = z3.FPVal(0.0, F)
    for g, t in tx:
        total = z3.If(g, z3.fpAdd(rm, total, t.f("field_32b").f("amount").fp()), total)

    # C9 (D80): if C is present: 32B of C equal to the sum -> 19 not allowed; not equal -> 19 mandatory
    # (amounts compared with the implementation's stated tolerance: equal when closer than 0.01)
    settle_eq = z3.fpLT(z3.fpAbs(z3.fpSub(rm, I.f("field_32b").some().f("amount").fp(), total)), CENT)
    x["D80"] = And(seq_c, settle_eq == hasA("field_19"))

    # C10 (C01): 19, when present, equals the sum of the 32B amounts of B (tolerance: more than 0.01 apart is an error)
    x["C01"] = And(hasA("field_19"),
                   z3.fpGT(z3.fpAbs(z3.fpSub(rm, I.f("field_19").some().f("amount").fp(), total)), CENT))

    # C11 (C02): one currency for all occurrences of fields 32B and 71G (B and C); one currency for all 71F (B and C)
    def currencies(pairs):
        out = []
        for g, t in tx:
            for n in pairs["b"]:
                out.append((And(g, t.f(n).present()), t.f(n).some().f("currency").s()))
        for n in pairs["c"]:
            out.append((I.f(n).present(), I.f(n).some().f("currency").s()))
        return out

    def differ(cs):
        return Or(*[And(g1, g2, c1 != c2) for i, (g1, c1) in enumerate(cs) for j, (g2, c2) in enumerate(cs) if i < j])
    # Reading asserted here: the library documents the rule per field ("all 32B / all 71G / all 71F currencies
    # must be the same"); the SR2025 text couples 32B with 71G, which is NOT asserted (see DESIGN.md, C04 notes).
    grp_32b = currencies({"b": ["field_32b"], "c": ["field_32b"]})
    grp_71g = currencies({"b": ["field_71g"], "c": ["field_71g"]})
    grp_71f = currencies({"b": ["field_71f"], "c": ["field_71f"]})
    x["C02"] = Or(differ(grp_32b), differ(grp_71g), differ(grp_71f))

    # C12 (C96): 23E of A = RFDD: no 21E, 50a (A/K), 52a, 71F, 71G in B and no sequence C;
    #            otherwise: no 21R in A and sequence C mandatory
    forbidden_b = ["field_21e", "creditor_tx", "field_52", "field_71f", "field_71g"]
    x["C96"] = Or(And(rfdd, Or(seq_c, *[some_b(has(n)) for n in forbidden_b])),
                  And(Not(rfdd), Or(hasA("field_21r"), Not(seq_c))))

    # Field 23E code lists (T47) and the narrative subfield only with OTHR (D81), sequences A and B
    def bad_code(f23, allowed):
        return And(f23.present(), Not(f23.some().f("instruction_code").one_of(allowed)))

    def bad_narrative(f23):
        return And(f23.present(), f23.some().f("additional_info").present(), Not(f23.some().f("instruction_code").eq("OTHR")))
    x["T47"] = Or(bad_code(a23, SEQ_A_23E), some_b(lambda t: bad_code(t.f("field_23e"), SEQ_B_23E)))
    x["D81"] = Or(bad_narrative(a23), some_b(lambda t: bad_narrative(t.f("field_23e"))))
    return x
