"""Reference model of the SR2025 network rules of MT942 (Interim Transaction Report), restated from the rule
texts (doc comments of src/messages/mt942.rs / SWIFT user handbook), on the symbolic instance view `I`.

The struct stores the first (mandatory) field 34F as `floor_limit_debit`, the second as `floor_limit_credit`."""


def expected(I, z3, m):
    from rulecheck import And, Or, Not
    pre = lambda it: z3.SubString(it.f("currency").s(), 0, 2)     # first two characters of the currency code
    first, second = I.f("floor_limit_debit"), I.f("floor_limit_credit")
    occ = [(True, pre(first)), (second.present(), pre(second.some()))]
    for n in ("field_90d", "field_90c"):
        occ.append((I.f(n).present(), pre(I.f(n).some())))
    x = {}
    # C1 (C27): first two characters of the currency code in 34F, 90D, 90C are the same for all occurrences
    x["C27"] = Or(*[And(g1, g2, p1 != p2) for i, (g1, p1) in enumerate(occ) for (g2, p2) in occ[i + 1:]])
    # C2 (C23): one 34F -> D/C mark not used; two 34F -> first 'D', second 'C'
    mark1, mark2 = first.f("indicator"), second.some().f("indicator")
    x["C23"] = Or(And(Not(second.present()), mark1.present()),
                  And(second.present(), Or(Not(mark1.present()), Not(mark1.some().eq("D")),
                                           Not(mark2.present()), Not(mark2.some().eq("C")))))
    # C3 (C24): a field 86 in the repetitive sequence must be preceded by a field 61, unless it is the last field of
    # the message. The struct attaches each 86 of the repetitive sequence to its 61, and the message-level 86 is
    # the last field, so no instance can violate it.
    x["C24"] = z3.BoolVal(False)
    return x
