"""Reference model of the SR2025 network rules of MT107 (General Direct Debit Message), restated from the rule
texts (doc comments C1-C9 + field 23E of src/messages/mt107.rs / SWIFT user handbook), on the symbolic instance
view `I` (mtsym/rulecheck.Inst). Returns {error code: z3 Bool "must be reported"}.

Sequence A = the top-level optional fields, sequence B = `transactions`, sequence C = field_32b/19/71f/71g/53.
Field 50a option A/K (creditor) and option C/L (instructing party) are separate struct fields."""

VALID_23E = ["AUTH", "NAUT", "OTHR", "RTND"]
TOL = 0.01   # amounts carry at most 2 decimals in the implementation's model; two amounts "agree" below 0.01


def expected(I, z3, m):
    from rulecheck import And, Or, Not
    F64 = z3.Float64()
    txs = I.f("transactions").items()            # [(guard, transaction)]
    inA = lambda n: I.f(n).present()
    anyB = lambda n: Or(*[And(g, t.f(n).present()) for g, t in txs])
    eachB = lambda n: And(*[Or(Not(g), t.f(n).present()) for g, t in txs])
    differ = lambda a, b: z3.fpGEQ(z3.fpAbs(z3.fpSub(z3.RNE(), a, b)), z3.FPVal(TOL, F64))
    x = {}

    # C1 (D86): 23E and 50a(A/K) each: in sequence A, or in each occurrence of sequence B, but not in both
    def placement_bad(a, b):
        ok = Or(And(inA(a), Not(anyB(b))), And(Not(inA(a)), eachB(b)))
        return Not(ok)
    x["D86"] = Or(placement_bad("field_23e", "field_23e"), placement_bad("creditor", "creditor_tx"))

    # C2 (D73): 21E, 26T, 77B, 71A, 52a, 50a(C/L): in sequence A => in no occurrence of sequence B (and vice versa)
    pairs = [("field_21e", "field_21e"), ("field_26t", "field_26t"), ("field_77b", "field_77b"),
             ("field_71a", "field_71a"), ("field_52", "field_52"), ("instructing_party", "instructing_party_tx")]
    x["D73"] = Or(*[And(inA(a), anyB(b)) for a, b in pairs])

    # C3 (D77): 21E present => 50a(A/K) present in the same sequence (A, or the same occurrence of B)
    x["D77"] = Or(And(inA("field_21e"), Not(inA("creditor"))),
                  *[And(g, t.f("field_21e").present(), Not(t.f("creditor_tx").present())) for g, t in txs])

    # C4 (C82): sequence A: 23E present with RTND => 72 mandatory; in all other cases 72 not allowed
    rtnd = And(inA("field_23e"), I.f("field_23e").some().f("instruction_code").eq("RTND"))
    x["C82"] = rtnd != inA("field_72")

    # C5 (D79): 71F (resp. 71G) in one or more occurrences of B <=> present in C
    x["D79"] = Or(anyB("field_71f") != inA("field_71f"), anyB("field_71g") != inA("field_71g"))

    # C6 (D21): 33B present => currency or amount (or both) differ from 32B of the same occurrence.
    # "Same amount" is equality of the two decimal amounts (both are read from the message text, no arithmetic), so
    # exact comparison - no tolerance is documented for this rule (3-decimal currencies differ by 0.001 steps).
    x["D21"] = Or(*[And(g, t.f("field_33b").present(),
                        t.f("field_33b").some().f("currency").s() == t.f("field_32b").f("currency").s(),
                        z3.fpEQ(t.f("field_33b").some().f("amount").fp(), t.f("field_32b").f("amount").fp()))
                    for g, t in txs])

    # C7 (D75): 36 present exactly when 33B is present with a currency different from 32B
    d75 = []
    for g, t in txs:
        need36 = And(t.f("field_33b").present(),
                     t.f("field_33b").some().f("currency").s() != t.f("field_32b").f("currency").s())
        d75.append(And(g, need36 != t.f("field_36").present()))
    x["D75"] = Or(*d75)

    # C8 (D80, C01): the sum of the 32B amounts of sequence B is carried by 32B of sequence C when no charges are
    # included (then 19 must not be present), otherwise by field 19 of sequence C; field 19, when present, must
    # equal that sum.
    total = z3.FPVal(0.0, F64)
    for g, t in txs:
        total = z3.If(g, z3.fpAdd(z3.RNE(), total, t.f("field_32b").f("amount").fp()), total)   # occurrences in order
    charges = Or(anyB("field_71f"), anyB("field_71g"))
    has19 = inA("field_19")
    x["D80"] = Or(And(Not(charges), Or(has19, differ(I.f("field_32b").f("amount").fp(), total))),
                  And(charges, Not(has19)))
    x["C01"] = And(has19, differ(I.f("field_19").some().f("amount").fp(), total))

    # C9 (C02): one currency for all 32B and 71G of sequences B and C; one currency for all 71F of B and C
    # Reading asserted here (as for MT104): per field — all 32B, all 71G, all 71F — which is what the library's own
    # error texts document; the SR2025 coupling of 32B with 71G is NOT asserted.
    grp32 = [(True, I.f("field_32b").f("currency").s())]
    grp71g = [(inA("field_71g"), I.f("field_71g").some().f("currency").s())]
    grp2 = [(inA("field_71f"), I.f("field_71f").some().f("currency").s())]
    for g, t in txs:
        grp32.append((g, t.f("field_32b").f("currency").s()))
        grp71g.append((And(g, t.f("field_71g").present()), t.f("field_71g").some().f("currency").s()))
        grp2.append((And(g, t.f("field_71f").present()), t.f("field_71f").some().f("currency").s()))
    mixed = lambda grp: Or(*[And(g1, g2, c1 != c2) for i, (g1, c1) in enumerate(grp) for (g2, c2) in grp[i + 1:]])
    x["C02"] = Or(mixed(grp32), mixed(grp71g), mixed(grp2))

    # field 23E (sequence A and every occurrence of B): T47 code not in the MT107 list; D81 additional information
    # only with OTHR
    all23 = [(inA("field_23e"), I.f("field_23e").some())] + [(And(g, t.f("field_23e").present()), t.f("field_23e").some()) for g, t in txs]
    x["T47"] = Or(*[And(g, Not(e.f("instruction_code").one_of(VALID_23E))) for g, e in all23])
    x["D81"] = Or(*[And(g, e.f("additional_info").present(), Not(e.f("instruction_code").eq("OTHR"))) for g, e in all23])
    return x


def assumptions(I, z3, m):
    """Sequence B is mandatory: the parser rejects a message without any transaction ("At least one transaction
    (sequence B, starting with field 21) is required"), so a parsed MT107 has >= 1 occurrence. (On an instance with
    no occurrence the implementation skips C8/C9 and treats "in each occurrence of B" as false.)"""
    return [I.f("transactions").count() >= 1]
