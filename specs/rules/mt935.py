"""Reference model of the SR2025 network rules of MT935 (Rate Change Advice), restated from the rule texts
(doc comments of src/messages/mt935.rs / SWIFT user handbook), on the symbolic instance view `I`.

Repetitive sequence: (23 | 25), 30, 37H (one or more). Field 23 is formatted 3!a[2!n]11x =
(Currency)(Number of Days)(Function); the library's struct Field23 stores these three subfields as
`function_code` (the leading 3!a, i.e. the Currency), `days` (Number of Days) and `reference` (the trailing 11x,
i.e. the Function).
"""

FUNCTIONS_23 = ["BASE", "CALL", "COMMERCIAL", "CURRENT", "DEPOSIT", "NOTICE", "PRIME"]


def expected(I, z3, m):
    from rulecheck import And, Or, Not
    seqs = I.f("rate_changes").items()
    upper = z3.Range("A", "Z")
    three_letters = z3.Concat(upper, upper, upper)                   # 3!a
    x = {}

    # C1 (T10): the repetitive sequence must appear at least once, but not more than ten times
    n = I.f("rate_changes").count()
    x["T10"] = Or(n < 1, n > 10)

    # C2 (C83): either field 23 or field 25, but not both, must be present in any repetitive sequence
    x["C83"] = Or(*[And(g, s.f("field_23").present() == s.f("field_25").present()) for g, s in seqs])

    # Field 23 (T26): 3!a[2!n]11x (Currency)(Number of Days)(Function); Function is one of the listed codes;
    # Number of Days must only be used when Function is NOTICE
    t26 = []
    for g, s in seqs:
        f23 = s.f("field_23")
        currency, days, function = f23.some().f("function_code"), f23.some().f("days"), f23.some().f("reference")
        bad_currency = Not(z3.InRe(currency.s(), three_letters))
        bad_days = And(days.present(), Or(days.some().int() < 0, days.some().int() > 99))      # 2!n
        bad_function = Not(function.one_of(FUNCTIONS_23))
        days_without_notice = And(days.present(), Not(function.eq("NOTICE")))
        t26.append(And(g, f23.present(), Or(bad_currency, bad_days, bad_function, days_without_notice)))
    x["T26"] = Or(*t26)

    # Field 37H: Indicator must be C or D (T51); Sign must not be used if Rate is zero (T14)
    t51, t14 = [], []
    for g, s in seqs:
        for g2, r in s.f("field_37h").items():
            t51.append(And(g, g2, Not(r.f("rate_indicator").one_of(["C", "D"]))))
            t14.append(And(g, g2, r.f("is_negative").present(), z3.fpIsZero(r.f("rate").fp())))
    x["T51"] = Or(*t51)
    x["T14"] = Or(*t14)
    return x
