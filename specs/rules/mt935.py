"""Reference model of the SR2025 network rules of MT935 (Rate Change Advice), restated from the rule texts
(doc comments of src/messages/mt935.rs / SWIFT user handbook), on the symbolic instance view `I`.

Repetitive sequence: (23 | 25), 30, 37H (one or more). Field 23 is formatted 3!a[2!n]11x =
(Currency)(Number of Days)(Function); the library's struct Field23 stores these three subfields as
`function_code` (the leading 3!a, i.e. the Currency), `days` (Number of Days) and `reference` (the trailing 11x,
i.e. the Function).
"""

FUNCTIONS_23 = ["BASE", "CALL", "COMMERCIAL", "CURRENT", "DEPOSIT", "NOTICE", "PRIME"]


def expected(I, z3, m):
    from rulecheck import And, Or, Not
    seqs = I.f("rate_changes").items()
    upper = z3.Range("A", "Z")
    three_letters = z3.Concat(upper, upper, upper)                   # 3!a
    x = {}

    # C1 (T10): the repetitive sequence must appear at least once, but not more than ten times
    n = I.f("rate_changes").count()
    x["T10"] = Or(n < 1, n > 10)

    # C2 (C83): either field 23 or field 25, but not both, must be present in any repetitive sequence
    x["C83"] = Or(*[And(g, s.f("field_23").present() == s.f("field_25").present()) for g, s in seqs])

    # Field 23 (T26): 3!a[2!n]11x (Currency)(Number of Days)(Function); Function is one of the listed codes;
    # Number of Days must only be used when Function is NOTICE
    t26 = []
    for g, s in seqs:
        f23 = s.f("field_23")
        currency, days, function = f23.some().f("function_code"), f23.some().f("days"), f23.some().f("reference")
        bad_currency = Not(z3.InRe(currency.s(), three_letters))
        bad_days = And(days.present(), Or(days.some().int() < 0, days.some().int() > 99))      # 2!n
        bad_function = Not(function.one_of(FUNCTIONS_23))
        days_without_notice = And(days.present(), Not(function.eq("NOTICE")))
        t26.append(And(g, f23.present(), Or(bad_currency, bad_days, bad_function, days_without_notice)))
    x["T26"] = Or(*t26)

    # Field 37H: Indicator must be C or D (T51); Sign must not be used if Rate is zero (T14).
    # "Sign used" = `is_negative` holds a value (the library writes the sign N for any Some(_), parses N to Some(true));
    # "Rate is zero" = the number is zero - the rule text gives no tolerance (12d can carry e.g. 0,000001, not zero).
    t51, t14 = [], []
    for g, s in seqs:
        for g2, r in s.f("field_37h").items():
            t51.append(And(g, g2, Not(r.f("rate_indicator").one_of(["C", "D"]))))
            t14.append(And(g, g2, r.f("is_negative").present(), z3.fpIsZero(r.f("rate").fp())))
    x["T51"] = Or(*t51)
    x["T14"] = Or(*t14)
    return x


def assumptions(I, z3, m):
    """What Field23::parse guarantees for the three stored subfields of a parsed field 23. The rule is about the wire
    value 3!a[2!n]11x and the struct is the parser's split of that value; a JSON-built instance can hold a different
    split of a well-formed value, which the subfield-wise reading above flags and the implementation (which validates
    the re-concatenated value) does not. Each of the three is needed (dropping any one gives a `sat` witness at K=1):
      - `function_code` is exactly the first three characters (input[0..3]);
        otherwise e.g. {function_code: "BSGCOMMERCIA", reference: "L"} = wire value "BSGCOMMERCIAL";
      - none of them is a lower-case letter (parse_uppercase); the implementation's check of the Currency subfield
        is "ASCII alphabetic" while 3!a means upper-case letters - indistinguishable on parsed messages,
        otherwise e.g. {function_code: "AdA", reference: "CURRENT"};
      - when `days` is absent, `reference` does not begin with two digits (the parser takes two digits after the
        first three characters as the Number of Days), otherwise e.g. {function_code: "HBP", reference: "01NOTICE"}."""
    from rulecheck import And, Or, Not
    digit = z3.Range("0", "9")
    lower = z3.Range("a", "z")
    anyc = z3.Star(z3.AllChar(z3.ReSort(z3.StringSort())))
    out = []
    for g, s in I.f("rate_changes").items():
        f23 = s.f("field_23")
        cur, days, fn = f23.some().f("function_code"), f23.some().f("days"), f23.some().f("reference")
        here = And(g, f23.present())
        out.append(Or(Not(here), z3.Length(cur.s()) == 3))
        out.append(Or(Not(here), Not(z3.InRe(cur.s(), z3.Concat(anyc, lower, anyc)))))
        out.append(Or(Not(here), days.present(), Not(z3.InRe(fn.s(), z3.Concat(digit, digit, anyc)))))
    return out
