"""Reference model of the SR2025 network rules of MT941 (Balance Report), restated from the rule text
(doc comments of src/messages/mt941.rs / SWIFT user handbook), on the symbolic instance view `I`."""


def expected(I, z3, m):
    from rulecheck import And, Or, Not
    pre = lambda it: z3.SubString(it.f("currency").s(), 0, 2)     # first two characters of the currency code
    occ = [(True, pre(I.f("field_62f")))]
    for n in ("field_60f", "field_90d", "field_90c", "field_64"):
        occ.append((I.f(n).present(), pre(I.f(n).some())))
    occ += [(g, pre(it)) for g, it in I.f("field_65").items()]
    x = {}
    # C1 (C27): first two characters of the currency code in 60F, 90D, 90C, 62F, 64, 65 are the same for all occurrences
    x["C27"] = Or(*[And(g1, g2, p1 != p2) for i, (g1, p1) in enumerate(occ) for (g2, p2) in occ[i + 1:]])
    return x
