"""Reference model of the SR2025 network rules of MT103 as documented (rule texts in the doc comments of
src/messages/mt103.rs and the SWIFT user handbook). Independent of the implementation: written on the
symbolic instance view `I` (mtsym/rulecheck.Inst). Returns {error code: z3 Bool "must be reported"}."""

VALID_23B = ["CRED", "CRTS", "SPAY", "SPRI", "SSTD"]
VALID_23E = ["SDVA", "INTC", "REPA", "CORT", "HOLD", "CHQB", "PHOB", "TELB", "PHON", "TELE", "PHOI", "TELI"]
ORDER_23E = VALID_23E  # documented order
ADDL_OK = ["PHON", "PHOB", "PHOI", "TELE", "TELB", "TELI", "HOLD", "REPA"]
FORBIDDEN = {"SDVA": ["HOLD", "CHQB"], "INTC": ["HOLD", "CHQB"], "REPA": ["HOLD", "CHQB", "CORT"], "CORT": ["HOLD", "CHQB"],
             "HOLD": ["CHQB"], "PHOB": ["TELB"], "PHON": ["TELE"], "PHOI": ["TELI"]}


def expected(I, z3, m):
    from rulecheck import And, Or, Not, S
    b23 = I.f("field_23b").f("instruction_code")
    e23 = I.f("field_23e").items()          # [(guard, item)]
    code = lambda it: it.f("instruction_code")
    has = lambda n: I.f(n).present()
    ccy32 = I.f("field_32a").f("currency").s()
    x = {}
    x["T36"] = Not(b23.one_of(VALID_23B))
    x["T48"] = Or(*[And(g, Not(code(it).one_of(VALID_23E))) for g, it in e23])
    x["D97"] = Or(*[And(g, it.f("additional_info").present(), Not(code(it).one_of(ADDL_OK))) for g, it in e23])
    x["E46"] = Or(*[And(g1, g2, code(a).s() == code(b).s()) for i, (g1, a) in enumerate(e23) for j, (g2, b) in enumerate(e23) if i < j])
    # D98: among the codes that have a place in the documented order, each must not precede its predecessor
    pos = lambda it: z3.Sum([z3.If(code(it).eq(c), k + 1, 0) for k, c in enumerate(ORDER_23E)])  # 0 = not in the order list
    d98 = []
    for j, (gj, b) in enumerate(e23):
        for i, (gi, a) in enumerate(e23[:j]):
            # a is the nearest earlier ordered code before b
            between = And(*[Or(Not(gk), pos(c) == 0) for gk, c in e23[i + 1:j]])
            d98.append(And(gi, gj, pos(a) > 0, pos(b) > 0, between, pos(b) < pos(a)))
    x["D98"] = Or(*d98)
    x["D67"] = Or(*[And(g1, g2, code(a).eq(base), code(b).one_of(forb)) for (g1, a) in e23 for (g2, b) in e23 for base, forb in FORBIDDEN.items()])
    has33, has36 = has("field_33b"), has("field_36")
    same = I.f("field_33b").some().f("currency").s() == ccy32
    x["D75"] = Or(And(has33, Not(same), Not(has36)), And(has33, same, has36), And(Not(has33), has36))
    spri = b23.eq("SPRI")
    x["E01"] = And(spri, Or(*[And(g, Not(code(it).one_of(["SDVA", "TELB", "PHOB", "INTC"]))) for g, it in e23]))
    x["E02"] = And(b23.one_of(["SSTD", "SPAY"]), I.f("field_23e").v.present)
    x["E06"] = And(has("field_55"), Or(Not(has("field_53")), Not(has("field_54"))))
    x["C81"] = And(has("field_56"), Not(has("field_57")))
    x["E16"] = And(spri, has("field_56"))
    a71 = I.f("field_71a").f("code")
    has71f, has71g = has("field_71f"), has("field_71g")
    x["E13"] = And(a71.eq("OUR"), has71f)
    x["D50"] = And(a71.eq("SHA"), has71g)
    x["E15"] = And(a71.eq("BEN"), Or(Not(has71f), has71g))
    x["D51"] = And(Or(has71f, has71g), Not(has33))
    x["C02"] = And(has71g, I.f("field_71g").some().f("currency").s() != ccy32)
    chqb = Or(*[And(g, code(it).eq("CHQB")) for g, it in e23])
    f59 = I.f("field_59")
    acct = Or(And(f59.is_variant("NoOption"), f59.variant("NoOption").f("account").present()),
              And(f59.is_variant("A"), f59.variant("A").f("account").present()))
    x["E18"] = And(chqb, acct)
    x["E44"] = And(Not(has("field_56")), Or(*[And(g, code(it).one_of(["TELI", "PHOI"])) for g, it in e23]))
    x["E45"] = And(Not(has("field_57")), Or(*[And(g, code(it).one_of(["TELE", "PHON"])) for g, it in e23]))
    return x
