"""Reference model of the SR2025 network rules of MT110 (Advice of Cheque(s)), from the rule text.

C1 (T10): the repetitive sequence must not be present more than ten times.
C2 (C02): the currency code in the amount field 32a must be the same for all occurrences of this field.
Written on the symbolic instance view `I` (mtsym/rulecheck.Inst)."""


def _ccy32(z3, ch):
    f = ch.f("field_32")
    return z3.If(f.is_variant("A"), f.variant("A").f("currency").s(), f.variant("B").f("currency").s())


def expected(I, z3, m):
    from rulecheck import And, Or, Not
    ch = I.f("cheques").items()
    x = {}
    x["T10"] = I.f("cheques").count() > 10
    x["C02"] = Or(*[And(g1, g2, _ccy32(z3, a) != _ccy32(z3, b))
                    for i, (g1, a) in enumerate(ch) for j, (g2, b) in enumerate(ch) if i < j])
    return x
