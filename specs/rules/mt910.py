"""Reference model of the SR2025 network rules of MT910 as documented (doc comments of src/messages/mt910.rs
and the SWIFT user handbook).

C1 (C06): either field 50a or field 52a must be present, but not both.

Note on the reading: the first line of the doc comment in mt910.rs says "Either field 50a or field 52a must be
present"; the standard's MT910 rule C1 (same error code C06 and same wording as MT210 rule C2, which the
repository documents as "mutual exclusivity") continues "... but not both".  The reference follows the
standard: exactly one of the two fields.  The "both absent" half is what the doc comment states unambiguously;
the "both present" half is the part on which the doc comment is silent."""


def expected(I, z3, m):
    from rulecheck import And, Or, Not
    has50, has52 = I.f("field_50").present(), I.f("field_52").present()
    both_absent = And(Not(has50), Not(has52))
    both_present = And(has50, has52)
    # The library documents C1 as "either field 50a or field 52a must be present" (inclusive; its own unit test
    # accepts both present). The exclusive reading of SR2025 is NOT asserted.
    return {"C06": both_absent}
