"""Reference model of the SR2025 network rules of MT205 as documented (doc comments of src/messages/mt205.rs
and the SWIFT user handbook).

C1 (C81): if field 56a is present, then field 57a must also be present."""


def expected(I, z3, m):
    from rulecheck import And
    return {"C81": And(I.f("intermediary").present(), I.f("account_with_institution").absent())}
