"""Reference model of the SR2025 network rules of MT920 (Request Message), restated from the rule texts
(doc comments of src/messages/mt920.rs / SWIFT user handbook), on the symbolic instance view `I`.

Each occurrence of the repetitive sequence holds field 12, field 25 and up to two fields 34F; the struct stores
the first 34F as `floor_limit_debit` and the second as `floor_limit_credit`."""


def expected(I, z3, m):
    from rulecheck import And, Or, Not
    seqs = I.f("sequence").items()
    x = {}
    t88, c22, c23, c40 = [], [], [], []
    for g, s in seqs:
        ty = s.f("field_12").f("type_code")
        first, second = s.f("floor_limit_debit"), s.f("floor_limit_credit")
        n34 = [first.present(), second.present()]
        # T88: field 12 must contain 940, 941, 942 or 950
        t88.append(And(g, Not(ty.one_of(["940", "941", "942", "950"]))))
        # C1 (C22): field 12 = 942 -> at least the field 34F Debit/(Debit and Credit) must be present
        c22.append(And(g, ty.eq("942"), Not(first.present())))
        # C2 (C23): exactly one 34F -> its D/C mark must not be used; two 34F -> first 'D', second 'C'
        mark1, mark2 = first.some().f("indicator"), second.some().f("indicator")
        only_first = And(n34[0], Not(n34[1]))
        only_second = And(Not(n34[0]), n34[1])
        both = And(n34[0], n34[1])
        c23.append(And(g, Or(And(only_first, mark1.present()),
                             And(only_second, mark2.present()),
                             And(both, Or(Not(mark1.present()), Not(mark1.some().eq("D")),
                                          Not(mark2.present()), Not(mark2.some().eq("C")))))))
        # C3 (C40): the currency must be the same for each occurrence of 34F within the sequence
        c40.append(And(g, both, first.some().f("currency").s() != second.some().f("currency").s()))
    x["T88"] = Or(*t88)
    x["C22"] = Or(*c22)
    x["C23"] = Or(*c23)
    x["C40"] = Or(*c40)
    return x


def assumptions(I, z3, m):
    """The struct keeps the first 34F of a sequence in `floor_limit_debit` and the second in `floor_limit_credit`;
    the parser fills them in this order, so a parsed message never has the second slot without the first.
    (Without this, a JSON-built instance with only `floor_limit_credit` carrying a D/C mark violates C2 by the
    rule text - one 34F, mark used - and the implementation reports nothing: it never looks at a lone second slot.)"""
    from rulecheck import Or, Not
    return [Or(Not(g), Not(s.f("floor_limit_credit").present()), s.f("floor_limit_debit").present())
            for g, s in I.f("sequence").items()]
