"""Reference model of the SR2025 network rules of MT101 as documented (rule texts in the doc comments of
src/messages/mt101.rs and the SWIFT user handbook).  Independent of the implementation: written on the
symbolic instance view `I` (mtsym/rulecheck.Inst).  Returns {error code: z3 Bool "must be reported"}.

C1 D54  36 present -> 21F present (per occurrence of sequence B)
C2 D60  per occurrence of B: 33B present and amount of 32B not zero -> 36 present, otherwise 36 not allowed
C3 D61  50a (F/G/H) in sequence A or in EVERY occurrence of B; never in both, never absent from both
C4 D62  50a (C/L) in A or in occurrences of B, not in both
C5 D68  33B present -> its currency differs from the currency of 32B of the same occurrence
C6 D64  52a in A or in occurrences of B, not in both
C7 D65  56a present -> 57a present
C8 D98  21R present -> the currency of 32B is the same in all occurrences of B
C9 E54  amount of 32B zero: 23E with EQUI -> 33B mandatory (21F optional); otherwise 33B and 21F not allowed
23E     T47 code list; D66 additional information only with CMTO/PHON/OTHR/REPA; D67 forbidden combinations;
        E46 no code repeated except OTHR

"Amount equal to zero" is read literally (the IEEE value is zero): 0,005 of a three-decimal currency is not zero.
The rule texts document no tolerance.  (The implementation takes |amount| < 0.01 as zero; with that reading in
`amount_zero` below every query of this type is unsat, so this is the only point of disagreement: D60, E54.)"""

VALID_23E = ["CHQB", "CMSW", "CMTO", "CMZB", "CORT", "EQUI", "INTC", "NETS", "OTHR", "PHON", "REPA", "RTGS", "URGP"]
ADDL_OK = ["CMTO", "PHON", "OTHR", "REPA"]
# SR2025 MT101 field 23E: combinations that are not allowed within one occurrence of sequence B
FORBIDDEN = {"CHQB": ["CMSW", "CMTO", "CMZB", "CORT", "NETS", "PHON", "REPA", "RTGS", "URGP"],
             "CMSW": ["CMTO", "CMZB"],
             "CMTO": ["CMZB"],
             "CORT": ["CMSW", "CMTO", "CMZB", "REPA"],
             "EQUI": ["CMSW", "CMTO", "CMZB"],
             "NETS": ["RTGS"]}


def expected(I, z3, m):
    from rulecheck import And, Or, Not
    txs = I.f("transactions").items()              # [(guard, transaction)]
    code = lambda it: it.f("instruction_code")
    zero = z3.FPVal(0.0, z3.Float64())

    def any_tx(pred):
        return Or(*[And(g, pred(t)) for g, t in txs])

    def all_tx(pred):
        return And(*[Or(Not(g), pred(t)) for g, t in txs])

    has = lambda t, n: t.f(n).present()
    amount_zero = lambda t: z3.fpEQ(t.f("field_32b").f("amount").fp(), zero)
    e23 = lambda t: t.f("field_23e").items()
    x = {}

    # C1
    x["D54"] = any_tx(lambda t: And(has(t, "field_36"), Not(has(t, "field_21f"))))

    # C2
    def c2(t):
        rate_required = And(has(t, "field_33b"), Not(amount_zero(t)))
        return Or(And(rate_required, Not(has(t, "field_36"))), And(Not(rate_required), has(t, "field_36")))
    x["D60"] = any_tx(c2)

    # C3: exactly one of "in A" / "in each occurrence of B" (an empty sequence B carries no ordering customer)
    oc_a = I.f("ordering_customer").present()
    oc_any_b = any_tx(lambda t: has(t, "ordering_customer_tx"))
    oc_each_b = And(Or(*[g for g, _ in txs]), all_tx(lambda t: has(t, "ordering_customer_tx")))
    x["D61"] = Not(Or(And(oc_a, Not(oc_any_b)), And(Not(oc_a), oc_each_b)))

    # C4
    x["D62"] = And(I.f("instructing_party").present(), any_tx(lambda t: has(t, "instructing_party_tx")))

    # C5
    x["D68"] = any_tx(lambda t: And(has(t, "field_33b"),
                                     t.f("field_33b").some().f("currency").s() == t.f("field_32b").f("currency").s()))

    # C6
    x["D64"] = And(I.f("field_52a").present(), any_tx(lambda t: has(t, "field_52")))

    # C7
    x["D65"] = any_tx(lambda t: And(has(t, "field_56"), Not(has(t, "field_57"))))

    # C8: some two occurrences of B differ in currency
    ccy = lambda t: t.f("field_32b").f("currency").s()
    x["D98"] = And(I.f("field_21r").present(),
                   Or(*[And(g1, g2, ccy(a) != ccy(b)) for i, (g1, a) in enumerate(txs) for j, (g2, b) in enumerate(txs) if i < j]))

    # C9
    def c9(t):
        equi = Or(*[And(g, code(it).eq("EQUI")) for g, it in e23(t)])
        return And(amount_zero(t), Or(And(equi, Not(has(t, "field_33b"))),
                                      And(Not(equi), Or(has(t, "field_33b"), has(t, "field_21f")))))
    x["E54"] = any_tx(c9)

    # field 23E
    x["T47"] = any_tx(lambda t: Or(*[And(g, Not(code(it).one_of(VALID_23E))) for g, it in e23(t)]))
    x["D66"] = any_tx(lambda t: Or(*[And(g, it.f("additional_info").present(), Not(code(it).one_of(ADDL_OK))) for g, it in e23(t)]))
    x["D67"] = any_tx(lambda t: Or(*[And(g1, g2, code(a).eq(base), code(b).one_of(forb))
                                     for g1, a in e23(t) for g2, b in e23(t) for base, forb in FORBIDDEN.items()]))
    x["E46"] = any_tx(lambda t: Or(*[And(g1, g2, code(a).s() == code(b).s(), Not(code(a).eq("OTHR")))
                                     for i, (g1, a) in enumerate(e23(t)) for j, (g2, b) in enumerate(e23(t)) if i < j]))
    return x


def assumptions(I, z3, m):
    """Amounts of a parsed message have at most three decimals (C03: the number of decimals is limited by the
    currency, three at most - BHD, KWD, ...), so a non-zero amount is at least 0,001.  Without this the solver
    answers the zero-amount questions with denormal doubles that no message text can denote."""
    from rulecheck import Or, Not
    zero, milli = z3.FPVal(0.0, z3.Float64()), z3.FPVal(0.001, z3.Float64())
    out = []
    for g, t in I.f("transactions").items():
        a = t.f("field_32b").f("amount").fp()
        out.append(Or(Not(g), z3.fpEQ(a, zero), z3.fpGEQ(a, milli)))
    return out
