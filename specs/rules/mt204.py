"""Reference model of the SR2025 network rules of MT204 (Financial Markets Direct Debit), from the rule text.

C1 (C01): the amount in field 19 must equal the sum of the amounts in all occurrences of field 32B
          (documented comparison tolerance: a difference of more than 0.01 is a violation).
C2 (C02): the currency code in the amount field 32B must be the same for all occurrences of this field.
C3 (T10): the repetitive sequence B must not appear more than ten times.
C1 is stated unconditionally: with no occurrence of sequence B (the parser accepts that) the sum of the 32B amounts
is zero, so any field 19 amount further than the tolerance from zero violates it.
Written on the symbolic instance view `I` (mtsym/rulecheck.Inst)."""


def expected(I, z3, m):
    from rulecheck import And, Or, Not
    F = z3.Float64()
    rm = z3.RNE()
    tx = I.f("transactions").items()
    amt = lambda t: t.f("currency_amount").f("amount").fp()
    ccy = lambda t: t.f("currency_amount").f("currency").s()
    total = z3.FPVal(0.0, F)
    for g, t in tx:
        total = z3.If(g, z3.fpAdd(rm, total, amt(t)), total)
    diff = z3.fpAbs(z3.fpSub(rm, I.f("sum_of_amounts").f("amount").fp(), total))
    x = {}
    x["C01"] = z3.fpGT(diff, z3.FPVal(0.01, F))
    x["C02"] = Or(*[And(g1, g2, ccy(a) != ccy(b))
                    for i, (g1, a) in enumerate(tx) for j, (g2, b) in enumerate(tx) if i < j])
    x["T10"] = I.f("transactions").count() > 10
    return x

