"""Reference model of the SR2025 network rules of MT950 (Statement Message), from the rule text.

C1 (C27): the first two characters of the three character currency code in fields 60a, 62a and 64
          must be the same.
Written on the symbolic instance view `I` (mtsym/rulecheck.Inst)."""


def _currency(z3, fld, variants):
    """currency of a balance field that is an enum over option letters (60F/60M, 62F/62M)"""
    cur = fld.variant(variants[-1]).f("currency").s()
    for v in reversed(variants[:-1]):
        cur = z3.If(fld.is_variant(v), fld.variant(v).f("currency").s(), cur)
    return cur


def expected(I, z3, m):
    from rulecheck import And, Or, Not
    p = lambda s: z3.SubString(s, 0, 2)
    c60 = p(_currency(z3, I.f("field_60"), ["F", "M"]))
    c62 = p(_currency(z3, I.f("field_62"), ["F", "M"]))
    has64 = I.f("field_64").present()
    c64 = p(I.f("field_64").some().f("currency").s())
    # all present balances share the prefix  <=>  no pair differs
    x = {}
    x["C27"] = Or(c60 != c62, And(has64, Or(c64 != c60, c64 != c62)))
    return x
