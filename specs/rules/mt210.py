"""Reference model of the SR2025 network rules of MT210 (Notice to Receive), from the rule text.

C1 (T10): the repetitive sequence must not appear more than ten times.
C2 (C06): either field 50a or field 52a, but not both, must be present in a repetitive sequence.
C3 (C02): the currency code must be the same for all occurrences of field 32B in the message.
Written on the symbolic instance view `I` (mtsym/rulecheck.Inst)."""


def expected(I, z3, m):
    from rulecheck import And, Or, Not
    tx = I.f("transactions").items()
    ccy = lambda t: t.f("currency_amount").f("currency").s()
    x = {}
    x["T10"] = I.f("transactions").count() > 10
    # exactly one of 50a / 52a in every occurrence of the repetitive sequence
    x["C06"] = Or(*[And(g, t.f("ordering_customer").present() == t.f("ordering_institution").present()) for g, t in tx])
    x["C02"] = Or(*[And(g1, g2, ccy(a) != ccy(b))
                    for i, (g1, a) in enumerate(tx) for j, (g2, b) in enumerate(tx) if i < j])
    return x
