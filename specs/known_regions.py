"""Where the recorded rule deviations live (known_findings.json, engine mtsym-rules).

For every recorded (type, code) deviation: the predicate, on the symbolic message instance, of the region of messages in which the
library is KNOWN to deviate from the documented rule. The rule query is asked twice: inside the region (the deviation is
re-established and printed as KNOWN-FINDING) and outside it (any deviation there is a new violation and is reported as such).
Written on the instance view `I` (mtsym/rulecheck.Inst)."""


def _F(z3):
    return z3.Float64()


def _between(z3, a, lo, hi):
    """lo < |a| < hi"""
    F = _F(z3)
    x = z3.fpAbs(a)
    return z3.And(z3.fpGT(x, z3.FPVal(lo, F)), z3.fpLT(x, z3.FPVal(hi, F)))


def mt101_tiny_amount(I, z3):
    # some transaction's 32B amount is non-zero but below 0.01
    return z3.Or(*[z3.And(g, _between(z3, t.f("field_32b").f("amount").fp(), 0.0, 0.01)) for g, t in I.f("transactions").items()] or [False])


def mt10x_unequal_33b(I, z3):
    # some transaction has 33B whose amount is not exactly the 32B amount (the library compares them with a tolerance of 0.01;
    # the tolerance band itself is not singled out: float subtraction makes that query undecided)
    out = []
    for g, t in I.f("transactions").items():
        a33, a32 = t.f("field_33b").some().f("amount").fp(), t.f("field_32b").f("amount").fp()
        out.append(z3.And(g, t.f("field_33b").present(), z3.Not(z3.fpEQ(a33, a32))))
    return z3.Or(*out) if out else False


def mt107_no_charges_in_b(I, z3):
    # no transaction of sequence B carries 71F or 71G
    return z3.And(*[z3.Or(z3.Not(g), z3.And(z3.Not(t.f("field_71f").present()), z3.Not(t.f("field_71g").present())))
                    for g, t in I.f("transactions").items()] or [True])


def mt107_any_charge_field(I, z3):
    # a 71F or 71G occurs anywhere (the library couples 32B with 71G and compares the charge currencies only partly)
    out = [I.f("field_71f").present(), I.f("field_71g").present()]
    for g, t in I.f("transactions").items():
        out += [z3.And(g, t.f("field_71f").present()), z3.And(g, t.f("field_71g").present())]
    return z3.Or(*out)


def mt204_no_sequence_b(I, z3):
    return I.f("transactions").count() == 0


def mt935_tiny_rate(I, z3):
    out = []
    for g, s in I.f("rate_changes").items():
        for g2, r in s.f("field_37h").items():
            out.append(z3.And(g, g2, _between(z3, r.f("rate").fp(), 0.0, 0.00001)))
    return z3.Or(*out) if out else False


REGIONS = {
    ("MT101", "D60"): mt101_tiny_amount,
    ("MT101", "E54"): mt101_tiny_amount,
    ("MT104", "D21"): mt10x_unequal_33b,
    ("MT107", "D21"): mt10x_unequal_33b,
    ("MT107", "C01"): mt107_no_charges_in_b,
    ("MT107", "C02"): mt107_any_charge_field,
    ("MT204", "C01"): mt204_no_sequence_b,
    ("MT935", "T14"): mt935_tiny_rate,
}
