"""Independent layout specification of the 30 supported message types (oracle for C01/C03/C09).

Written from the SWIFT SR2025 message format descriptions as restated in the library's struct
documentation (which fields a type has, which are optional / repeating, which options each field
admits) — NOT from parse_from_block4 / to_mt_string. Notation (a regular expression over field tags):

    TAG        mandatory field            TAG?   optional        TAG*   0..n        TAG+  1..n
    50[AFK]    field 50 in option A, F or K;  59[-AF]  no letter, A or F
    ( ... )?   optional sequence   ( ... )*  /  ( ... )+   repeating sequence

Repetition caps (10 / 100 / 500 occurrences) are outside the token budget of the bounded queries and
are not part of this regular specification (they are checked by cap scaling, see DESIGN C01).
"""

LAYOUTS = {
    "MT101": "20 21R? 28D 50[CL]? 50[FGH]? 52[AC]? 51A? 30 25? "
             "( 21 21F? 23E* 32B 50[CL]? 50[FGH]? 52[AC]? 56[ACD]? 57[ABCD]? 59[-AF] 70? 77B? 33B? 71A 25A? 36? )+",
    "MT103": "20 13C* 23B 23E* 26T? 32A 33B? 36? 50[AFK] 51A? 52[AD]? 53[ABD]? 54[ABD]? 55[ABD]? 56[ACD]? "
             "57[ABCD]? 59[-AF] 70? 71A 71F* 71G? 72? 77B? 77T?",
    "MT104": "20 21R? 23E? 21E? 30 51A? 50[CL]? 50[AK]? 52[ACD]? 26T? 77B? 71A? 72? "
             "( 21 23E? 21C? 21D? 21E? 32B 50[CL]? 50[AK]? 52[ACD]? 57[ABCD]? 59[-A] 70? 26T? 77B? 33B? 71A? 71F? 71G? 36? )+ "
             "32B? 19? 71F? 71G? 53[ABD]?",
    "MT107": "20 23E? 21E? 30 51A? 50[CL]? 50[AK]? 52[ACD]? 26T? 77B? 71A? 72? "
             "( 21 23E? 21C? 21D? 21E? 32B 50[CL]? 50[AK]? 52[ACD]? 57[ABCD]? 59[-AF] 70? 26T? 77B? 33B? 71A? 71F? 71G? 36? )+ "
             "32B 19? 71F? 71G? 53[ABD]?",
    "MT110": "20 53[ABD]? 54[ABD]? 72? ( 21 30 32[AB] 50[AFK]? 52[ABD]? 59[-AF] )+",
    "MT111": "20 21 30 32[AB] 52[AD]? 59? 75?",
    "MT112": "20 21 30 32[AB] 52[AD]? 59? 76",
    "MT190": "20 21 25 32[CD] 52[AD]? 71B 72?",
    "MT191": "20 21 32B 52[AD]? 57[ABCD]? 71B 72?",
    "MT192": "20 21 11S 79?",
    "MT196": "20 21 76 77A? 11? 79?",
    "MT199": "20 21? 79",
    "MT200": "20 32A 53B? 56[AD]? 57[ABD] 72?",
    "MT202": "20 21 13C* 32A 52[AD]? 53[ABD]? 54[ABD]? 56[ACD]? 57[ABCD]? 58[AD] 72? "
             "( 50[AFK]? 52[AD]? 56[ACD]? 57[ABCD]? 59[-AF]? 70? 72? 33B? )",
    "MT204": "19 20 30 57[ABCD]? 58[AD]? 72? ( 20 21? 32B 53[ABD]? 72? )*",
    "MT205": "20 21 13C* 23B? 32A 33B? 52[AD]? 53[ABD]? 54[ABD]? 56[ACD]? 57[ABCD]? 58[AD] 72?",
    "MT210": "20 25? 30 ( 21? 32B 50[-CF]? 52[AD]? 56[ACD]? )*",
    "MT290": "20 21 25 32[CD] 52[AD]? 71B 72?",
    "MT291": "20 21 32B 52[AD]? 57[ABD]? 71B 72?",
    "MT292": "20 21 11S 79",
    "MT296": "20 21 76 77A? 11R? 11S? 79?",
    "MT299": "20 21? 79",
    "MT900": "20 21 25[-P] 13D? 32A 52[AD]? 72?",
    "MT910": "20 21 25[-P] 13D? 32A 50[AFK]? 52[AD]? 56[ACD]? 72?",
    "MT920": "20 ( 12 25 34F? 34F? )+",
    "MT935": "20 ( 23 25? 30 37H+ | 25 30 37H+ )+ 72?",
    "MT940": "20 21? 25 28C 60F ( 61 86? )+ 62F 64? 65*",
    "MT941": "20 21? 25[-P] 28 13D? 60F? 90D? 90C? 62F 64? 65* 86?",
    "MT942": "20 21? 25[-P] 28C 34F 34F? 13D ( 61 86? )* 90D? 90C? 86?",
    "MT950": "20 25 28C 60[FM] 61* 62[FM] 64?",
}

# Deviations of the library's own documented layouts from the SWIFT standard that this table follows the
# library on (because the property is stated against the type's documented layout):
NOTES = {
    "MT101": "57a documented by the library with options A, B, C, D (standard: A, C, D)",
    "MT104": "settlement fields (sequence C) are individually optional in the struct",
    "MT204": "library documents 19 before 20 (standard: 20 19 30); sequence B may be empty in the struct",
    "MT202": "sequence B (cover) fields are individually optional in the struct",
    "MT210": "21 optional and 0 sequences allowed by the struct",
    "MT940": "at least one statement line is documented as required by the library",
    "MT192": "79 optional at layout level (the 79-or-copy-of-fields requirement is network rule C25)",
    "MT935": "a sequence starts with 23 and/or 25 (exactly one is network rule C1); at least one is needed to recognise the sequence",
    "MT292": "79 documented as required (copy-of-fields alternative is not modelled by the struct)",
}


# ----------------------------------------------------------------------------------------------
# regular-expression -> position (Glushkov) automaton
# ----------------------------------------------------------------------------------------------
import re as _re


def _tokenize(spec):
    return _re.findall(r"\(|\)[?*+]?|\||[0-9]{2}[A-Z]?(?:\[[-A-Z]+\])?[?*+]?", spec)


class Node:
    def __init__(self, kind, **kw):
        self.kind = kind
        self.__dict__.update(kw)


def _parse(tokens):
    pos = [0]

    def seq():
        alts = [one()]
        while pos[0] < len(tokens) and tokens[pos[0]] == "|":
            pos[0] += 1
            alts.append(one())
        return alts[0] if len(alts) == 1 else Node("alt", items=alts)

    def one():
        items = []
        while pos[0] < len(tokens) and not tokens[pos[0]].startswith(")") and tokens[pos[0]] != "|":
            t = tokens[pos[0]]
            if t == "(":
                pos[0] += 1
                inner = seq()
                close = tokens[pos[0]]
                pos[0] += 1
                node = inner
                q = close[1:]
            else:
                pos[0] += 1
                m = _re.match(r"([0-9]{2})([A-Z]?)(?:\[([-A-Z]+)\])?([?*+]?)$", t)
                base, letter, opts, q = m.groups()
                if opts:
                    tags = [base + ("" if o == "-" else o) for o in opts]
                else:
                    tags = [base + letter]
                node = Node("sym", tags=tags, name=t.rstrip("?*+"))
            if q == "?":
                node = Node("opt", a=node)
            elif q == "*":
                node = Node("star", a=node)
            elif q == "+":
                node = Node("plus", a=node)
            items.append(node)
        return Node("seq", items=items)
    return seq()


class Glushkov:
    """states = symbol occurrences (positions); first / last / follow sets; nullable."""

    def __init__(self, spec):
        self.syms = []   # list of (tags, name, mandatory_context)
        tree = _parse(_tokenize(spec))
        self.nullable, self.first, self.last = self._build(tree, True)
        self.follow = {i: set() for i in range(len(self.syms))}
        self._follow(tree)

    def _build(self, n, mand):
        if n.kind == "sym":
            n.id = len(self.syms)
            self.syms.append({"tags": n.tags, "name": n.name, "mandatory": mand})
            n.nullable, n.first, n.last = False, {n.id}, {n.id}
        elif n.kind == "seq":
            nullable, first, last = True, set(), set()
            res = [self._build(c, mand) for c in n.items]
            for (nu, fi, la) in res:
                if nullable:
                    first |= fi
                nullable = nullable and nu
            tail_null = True
            for (nu, fi, la) in reversed(res):
                if tail_null:
                    last |= la
                tail_null = tail_null and nu
            n.nullable, n.first, n.last = nullable, first, last
        elif n.kind == "alt":
            res = [self._build(c, True) for c in n.items]
            n.nullable = any(r[0] for r in res)
            n.first = set().union(*[r[1] for r in res])
            n.last = set().union(*[r[2] for r in res])
        elif n.kind in ("opt", "star"):
            # a field is optional only when the quantifier sits on the field itself; inside an optional or
            # repeating *group* a plain field is mandatory whenever the group occurs
            nu, fi, la = self._build(n.a, n.a.kind != "sym")
            n.nullable, n.first, n.last = True, fi, la
        elif n.kind == "plus":
            nu, fi, la = self._build(n.a, mand)
            n.nullable, n.first, n.last = nu, fi, la
        return n.nullable, n.first, n.last

    def _follow(self, n):
        if n.kind == "seq":
            for c in n.items:
                self._follow(c)
            for i in range(len(n.items)):
                j = i + 1
                while j < len(n.items):
                    for p in n.items[i].last:
                        self.follow[p] |= n.items[j].first
                    if not n.items[j].nullable:
                        break
                    j += 1
        elif n.kind in ("star", "plus"):
            self._follow(n.a)
            for p in n.a.last:
                self.follow[p] |= n.a.first
        elif n.kind == "opt":
            self._follow(n.a)
        elif n.kind == "alt":
            for c in n.items:
                self._follow(c)

    def accepts(self, tags):
        cur = None
        for k, t in enumerate(tags):
            cand = self.first if k == 0 else set().union(*[self.follow[p] for p in cur]) if cur else set()
            cur = {p for p in cand if t in self.syms[p]["tags"]}
            if not cur:
                return False
        if cur is None:
            return self.nullable
        return bool(cur & self.last)


if __name__ == "__main__":
    for ty, spec in LAYOUTS.items():
        g = Glushkov(spec)
        print(ty, len(g.syms), "positions; nullable", g.nullable)
    g = Glushkov(LAYOUTS["MT103"])
    assert g.accepts(["20", "23B", "32A", "50K", "59", "71A"])
    assert not g.accepts(["20", "23B", "32A", "59", "71A"])
    assert g.accepts(["20", "13C", "13C", "23B", "23E", "32A", "50A", "59F", "71A", "71F", "71F", "72"])
    print("ok")
