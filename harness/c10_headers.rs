//! C10 / C07 / C12 — basic and application header parsing: components are the slices at the documented
//! offsets, wrong length / direction is rejected, no input panics.
use super::rt::*;
use crate::{vassert, vcover};
use swift_mt_message::headers::{ApplicationHeader, BasicHeader};

fn eq(s: &str, b: &[u8]) -> bool {
    let x = s.as_bytes();
    if x.len() != b.len() {
        return false;
    }
    let mut i = 0;
    while i < b.len() {
        if x[i] != b[i] {
            return false;
        }
        i += 1;
    }
    true
}

//# harness: name=c10_basic_header prop=C10,C07 tier=thorough unwind=28 timeout=1800 stubs=fmt
//# functions: headers::BasicHeader::parse
//# bound: all UTF-8 strings of 0..26 bytes, unwind 28
pub fn basic_header() {
    let b: [u8; 26] = any_buf();
    let len = any_below(27);
    assume(is_utf8(&b, len));
    let r = BasicHeader::parse(as_str(&b, len));
    match r {
        Ok(h) => {
            vcover!(true, "ok-arm");
            vassert!(len == 25, "block 1 of wrong length accepted");
            vassert!(is_ascii(&b, len), "non-ASCII block 1 accepted");
            vassert!(eq(&h.application_id, &b[0..1]), "application_id");
            vassert!(eq(&h.service_id, &b[1..3]), "service_id");
            vassert!(eq(&h.logical_terminal, &b[3..15]), "logical_terminal");
            vassert!(eq(&h.session_number, &b[15..19]), "session_number");
            vassert!(eq(&h.sequence_number, &b[19..25]), "sequence_number");
            // the sender BIC is a prefix of the logical terminal (8 or 11 characters)
            let sb = h.sender_bic.as_bytes();
            vassert!(sb.len() == 8 || sb.len() == 11, "sender_bic length");
            vassert!(eq(&h.sender_bic, &b[3..3 + sb.len()]), "sender_bic is a prefix of the logical terminal");
            core::mem::forget(h);
        }
        Err(e) => {
            vcover!(true, "err-arm");
            vassert!(!(len == 25 && is_ascii(&b, len)), "well-formed 25-character block 1 rejected");
            core::mem::forget(e);
        }
    }
}

//# harness: name=c10_app_header_input prop=C10,C07,C12 tier=thorough unwind=24 timeout=1800 stubs=fmt
//# functions: headers::ApplicationHeader::parse (input direction)
//# bound: all UTF-8 strings of 0..22 bytes starting with 'I' or any other direction byte, unwind 24
pub fn app_header_input() {
    let b: [u8; 22] = any_buf();
    let len = any_below(23);
    assume(is_utf8(&b, len));
    assume(len == 0 || b[0] != b'O');
    let r = ApplicationHeader::parse(as_str(&b, len));
    match r {
        Ok(h) => {
            vcover!(true, "ok-arm");
            vassert!(len >= 17 && b[0] == b'I', "short or wrong-direction block 2 accepted");
            vassert!(is_ascii(&b, if len < 21 { len } else { 21 }), "non-ASCII block 2 accepted");
            vassert!(eq(h.message_type(), &b[1..4]), "message type is bytes 1..4");
            match h {
                ApplicationHeader::Input(ref i) => {
                    vassert!(eq(&i.destination_address, &b[4..16]), "destination_address");
                    vassert!(eq(&i.priority, &b[16..17]), "priority");
                    let rb = i.receiver_bic.as_bytes();
                    vassert!(rb.len() == 8 || rb.len() == 11, "receiver_bic length");
                    vassert!(eq(&i.receiver_bic, &b[4..4 + rb.len()]), "receiver_bic prefix");
                    if let Some(ref m) = i.delivery_monitoring {
                        vassert!(len >= 18 && eq(m, &b[17..18]), "delivery_monitoring");
                    }
                    if let Some(ref o) = i.obsolescence_period {
                        vassert!(len >= 21 && eq(o, &b[18..21]), "obsolescence_period");
                    }
                }
                ApplicationHeader::Output(_) => {
                    vassert!(false, "input header parsed as output");
                }
            }
            core::mem::forget(h);
        }
        Err(e) => {
            vcover!(true, "err-arm");
            vassert!(!(len >= 17 && len <= 21 && b[0] == b'I' && is_ascii(&b, len)), "well-formed input block 2 rejected");
            core::mem::forget(e);
        }
    }
}

//# harness: name=c10_app_header_output prop=C10,C07,C12 tier=manual unwind=50 timeout=1800 stubs=fmt
//# functions: headers::ApplicationHeader::parse (output direction)
//# bound: all ASCII strings of 0..48 bytes starting with 'O', unwind 50
pub fn app_header_output() {
    let b: [u8; 48] = any_buf();
    let len = any_below(49);
    assume(is_ascii(&b, len));
    assume(len > 0 && b[0] == b'O');
    let r = ApplicationHeader::parse(as_str(&b, len));
    match r {
        Ok(h) => {
            vcover!(true, "ok-arm");
            vassert!(len >= 46, "short output block 2 accepted");
            vassert!(eq(h.message_type(), &b[1..4]), "message type is bytes 1..4");
            match h {
                ApplicationHeader::Output(ref o) => {
                    vassert!(eq(&o.input_time, &b[4..8]), "input_time");
                    vassert!(eq(&o.mir.date, &b[8..14]), "mir.date");
                    vassert!(eq(&o.mir.lt_identifier, &b[14..26]), "mir.lt_identifier");
                    vassert!(eq(&o.mir.session_number, &b[26..30]), "mir.session");
                    vassert!(eq(&o.mir.sequence_number, &b[30..36]), "mir.sequence");
                    vassert!(eq(&o.output_date, &b[36..42]), "output_date");
                    vassert!(eq(&o.output_time, &b[42..46]), "output_time");
                    match o.priority {
                        Some(ref p) => vassert!(len >= 47 && eq(p, &b[46..47]), "priority"),
                        None => vassert!(len == 46, "priority dropped"),
                    }
                }
                ApplicationHeader::Input(_) => {
                    vassert!(false, "output header parsed as input");
                }
            }
            core::mem::forget(h);
        }
        Err(e) => {
            vcover!(true, "err-arm");
            vassert!(len < 46, "well-formed output block 2 rejected");
            core::mem::forget(e);
        }
    }
}

//# harness: name=c07_app_header_output_utf8 prop=C07 tier=manual unwind=50 timeout=1800 stubs=fmt
//# functions: headers::ApplicationHeader::parse (output direction, non-ASCII)
//# bound: 'O' + 47 bytes of which a symbolic window of 4 bytes is arbitrary UTF-8 and the rest 'A', unwind 50
pub fn app_header_output_utf8() {
    let mut b = [b'A'; 48];
    b[0] = b'O';
    let w: [u8; 4] = any_buf();
    let at = any_below(44) + 1;
    let mut i = 0;
    while i < 4 {
        b[at + i] = w[i];
        i += 1;
    }
    let len = 46 + any_below(3);
    assume(is_utf8(&b, len));
    let r = ApplicationHeader::parse(as_str(&b, len));
    match r {
        Ok(h) => {
            vcover!(true, "ok-arm");
            core::mem::forget(h);
        }
        Err(e) => {
            vcover!(true, "err-arm");
            core::mem::forget(e);
        }
    }
}


//# harness: name=c10_basic_header_ascii prop=C10,C07 tier=quick unwind=28 timeout=900 stubs=fmt
//# functions: headers::BasicHeader::parse
//# bound: all ASCII strings of 24..26 bytes plus a symbolic 2-byte non-ASCII character at a symbolic offset, unwind 28
pub fn basic_header_ascii() {
    let mut b: [u8; 26] = any_buf();
    let len = 24 + any_below(3);
    assume(is_ascii(&b, 26));
    // optionally plant one two-byte character (C3 A0..BF) anywhere: every fixed offset can fall inside it
    let plant = any_bool();
    let at = any_below(25);
    if plant {
        b[at] = 0xC3;
        b[at + 1] = 0xA0 | (any_u8() & 0x1F);
    }
    let r = BasicHeader::parse(as_str(&b, len));
    match r {
        Ok(h) => {
            vcover!(true, "ok-arm");
            vassert!(len == 25, "block 1 of wrong length accepted");
            vassert!(!plant || at >= len, "non-ASCII block 1 accepted");
            vassert!(eq(&h.application_id, &b[0..1]), "application_id");
            vassert!(eq(&h.service_id, &b[1..3]), "service_id");
            vassert!(eq(&h.logical_terminal, &b[3..15]), "logical_terminal");
            vassert!(eq(&h.session_number, &b[15..19]), "session_number");
            vassert!(eq(&h.sequence_number, &b[19..25]), "sequence_number");
            core::mem::forget(h);
        }
        Err(e) => {
            vcover!(true, "err-arm");
            vassert!(!(len == 25 && (!plant || at >= len)), "well-formed 25-character block 1 rejected");
            core::mem::forget(e);
        }
    }
}

//# harness: name=c10_app_header_input_ascii prop=C10,C07,C12 tier=thorough unwind=24 timeout=900 stubs=fmt
//# functions: headers::ApplicationHeader::parse (input direction)
//# bound: all ASCII strings of 16..21 bytes starting with 'I', unwind 24
pub fn app_header_input_ascii() {
    let b: [u8; 22] = any_buf();
    let len = 16 + any_below(6);
    assume(is_ascii(&b, 22));
    assume(b[0] == b'I');
    let r = ApplicationHeader::parse(as_str(&b, len));
    match r {
        Ok(h) => {
            vcover!(true, "ok-arm");
            vassert!(len >= 17, "short block 2 accepted");
            vassert!(eq(h.message_type(), &b[1..4]), "message type is bytes 1..4");
            if let ApplicationHeader::Input(ref i) = h {
                vassert!(eq(&i.destination_address, &b[4..16]), "destination_address");
                vassert!(eq(&i.priority, &b[16..17]), "priority");
                if let Some(ref m) = i.delivery_monitoring {
                    vassert!(len >= 18 && eq(m, &b[17..18]), "delivery_monitoring");
                }
                if let Some(ref o) = i.obsolescence_period {
                    vassert!(len >= 21 && eq(o, &b[18..21]), "obsolescence_period");
                }
            } else {
                vassert!(false, "input header parsed as output");
            }
            core::mem::forget(h);
        }
        Err(e) => {
            vcover!(true, "err-arm");
            vassert!(len < 17, "well-formed input block 2 rejected");
            core::mem::forget(e);
        }
    }
}
