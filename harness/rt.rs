//! Runtime shim shared by the Kani harness crate and the native replayer.
//! Under Kani, inputs are `kani::any()` and `vassert!` is a proof obligation; natively the
//! inputs are popped from the witness queue (the `concrete_vals` Kani printed, or a witness
//! stored in known_findings.json) and a failed `vassert!` unwinds with a tagged payload.
//! Width 2 is reserved for nondeterminism inside std stubs (skipped natively).

#[cfg(not(kani))]
pub mod native {
    use std::cell::RefCell;
    use std::collections::VecDeque;
    thread_local! {
        pub static QUEUE: RefCell<VecDeque<Vec<u8>>> = RefCell::new(VecDeque::new());
        pub static COVERS: RefCell<Vec<&'static str>> = RefCell::new(Vec::new());
    }
    pub fn load(vals: Vec<Vec<u8>>) {
        QUEUE.with(|q| *q.borrow_mut() = vals.into_iter().collect());
        COVERS.with(|c| c.borrow_mut().clear());
    }
    pub fn pop(width: usize) -> Vec<u8> {
        QUEUE.with(|q| {
            let mut q = q.borrow_mut();
            loop {
                match q.pop_front() {
                    Some(v) if v.len() == 2 && width != 2 => continue, // stub nondeterminism
                    Some(v) => {
                        if v.len() != width {
                            std::panic::panic_any(format!(
                                "REPLAY-DESYNC: wanted width {} got {}",
                                width,
                                v.len()
                            ));
                        }
                        return v;
                    }
                    None => std::panic::panic_any("REPLAY-DESYNC: queue exhausted".to_string()),
                }
            }
        })
    }
}

#[cfg(kani)]
pub fn any_u8() -> u8 {
    kani::any()
}
#[cfg(not(kani))]
pub fn any_u8() -> u8 {
    native::pop(1)[0]
}

#[cfg(kani)]
pub fn any_bool() -> bool {
    kani::any()
}
#[cfg(not(kani))]
pub fn any_bool() -> bool {
    native::pop(1)[0] != 0
}

#[cfg(kani)]
pub fn any_usize() -> usize {
    kani::any()
}
#[cfg(not(kani))]
pub fn any_usize() -> usize {
    let v = native::pop(8);
    usize::from_le_bytes([v[0], v[1], v[2], v[3], v[4], v[5], v[6], v[7]])
}

#[cfg(kani)]
pub fn any_u32() -> u32 {
    kani::any()
}
#[cfg(not(kani))]
pub fn any_u32() -> u32 {
    let v = native::pop(4);
    u32::from_le_bytes([v[0], v[1], v[2], v[3]])
}

#[cfg(kani)]
pub fn any_f64() -> f64 {
    kani::any()
}
#[cfg(not(kani))]
pub fn any_f64() -> f64 {
    let v = native::pop(8);
    f64::from_le_bytes([v[0], v[1], v[2], v[3], v[4], v[5], v[6], v[7]])
}

/// usize in 0..n (n small)
pub fn any_below(n: usize) -> usize {
    let v = any_u8() as usize;
    assume(v < n);
    v
}

pub fn any_buf<const N: usize>() -> [u8; N] {
    let mut b = [0u8; N];
    let mut i = 0;
    while i < N {
        b[i] = any_u8();
        i += 1;
    }
    b
}

#[cfg(kani)]
pub fn assume(c: bool) {
    kani::assume(c)
}
#[cfg(not(kani))]
pub fn assume(c: bool) {
    if !c {
        std::panic::panic_any("REPLAY-ASSUME: assumption not satisfied by witness".to_string());
    }
}

#[cfg(kani)]
#[macro_export]
macro_rules! vassert {
    ($cond:expr, $id:expr) => {
        assert!($cond, $id)
    };
}
#[cfg(not(kani))]
#[macro_export]
macro_rules! vassert {
    ($cond:expr, $id:expr) => {
        if !($cond) {
            std::panic::panic_any(format!("VASSERT:{}", $id));
        }
    };
}

#[cfg(kani)]
#[macro_export]
macro_rules! vcover {
    ($cond:expr, $id:expr) => {
        kani::cover!($cond, $id)
    };
}
#[cfg(not(kani))]
#[macro_export]
macro_rules! vcover {
    ($cond:expr, $id:expr) => {
        if $cond {
            $crate::harness::rt::native::COVERS.with(|c| c.borrow_mut().push($id));
        }
    };
}

/// View the first `len` bytes of `b` as &str. Caller must have assumed UTF-8 validity.
pub fn as_str(b: &[u8], len: usize) -> &str {
    unsafe { core::str::from_utf8_unchecked(&b[..len]) }
}

pub fn is_ascii(b: &[u8], len: usize) -> bool {
    let mut i = 0;
    while i < len {
        if b[i] >= 0x80 {
            return false;
        }
        i += 1;
    }
    true
}

/// Hand-written UTF-8 validity predicate (prefix of `len` bytes of `b`).
pub fn is_utf8(b: &[u8], len: usize) -> bool {
    let mut i = 0;
    while i < len {
        let c = b[i];
        if c < 0x80 {
            i += 1;
        } else if c >= 0xC2 && c <= 0xDF {
            if i + 1 >= len || (b[i + 1] & 0xC0) != 0x80 {
                return false;
            }
            i += 2;
        } else if c >= 0xE0 && c <= 0xEF {
            if i + 2 >= len || (b[i + 1] & 0xC0) != 0x80 || (b[i + 2] & 0xC0) != 0x80 {
                return false;
            }
            if c == 0xE0 && b[i + 1] < 0xA0 {
                return false;
            }
            if c == 0xED && b[i + 1] >= 0xA0 {
                return false;
            }
            i += 3;
        } else if c >= 0xF0 && c <= 0xF4 {
            if i + 3 >= len
                || (b[i + 1] & 0xC0) != 0x80
                || (b[i + 2] & 0xC0) != 0x80
                || (b[i + 3] & 0xC0) != 0x80
            {
                return false;
            }
            if c == 0xF0 && b[i + 1] < 0x90 {
                return false;
            }
            if c == 0xF4 && b[i + 1] >= 0x90 {
                return false;
            }
            i += 4;
        } else {
            return false;
        }
    }
    true
}

pub fn is_digit(b: u8) -> bool {
    b >= b'0' && b <= b'9'
}
pub fn is_upper(b: u8) -> bool {
    b >= b'A' && b <= b'Z'
}
pub fn is_alnum_upper(b: u8) -> bool {
    is_digit(b) || is_upper(b)
}
