//! Struct-literal builders for message-level harnesses (no parsing involved: the messages are built
//! directly from public fields, so that network validation / classification code runs on a value whose
//! *shape* is symbolic).
#![allow(dead_code)]
use chrono::NaiveDate;
use swift_mt_message::fields::*;

pub fn s(x: &str) -> String {
    x.to_string()
}
pub fn date() -> NaiveDate {
    NaiveDate::from_ymd_opt(2025, 1, 15).unwrap()
}
pub fn ccy(same: bool) -> String {
    if same {
        s("USD")
    } else {
        s("EUR")
    }
}
pub fn f20() -> Field20 {
    Field20 { reference: s("REF1") }
}
pub fn f21() -> Field21NoOption {
    Field21NoOption { reference: s("REL1") }
}
pub fn f32a(c: String, amount: f64) -> Field32A {
    Field32A { value_date: date(), currency: c, amount }
}
pub fn f32b(c: String, amount: f64) -> Field32B {
    Field32B { currency: c, amount }
}
pub fn f33b(c: String, amount: f64) -> Field33B {
    Field33B { currency: c, amount }
}
pub fn f50k() -> Field50K {
    Field50K { account: None, name_and_address: vec![s("NAME")] }
}
pub fn f50a() -> Field50A {
    Field50A { party_identifier: None, name_and_address: vec![s("NAME")] }
}
pub fn f52a() -> Field52A {
    Field52A { party_identifier: None, bic: s("BANKDEFF") }
}
pub fn f53a() -> Field53A {
    Field53A { party_identifier: None, bic: s("BANKDEFF") }
}
pub fn f54a() -> Field54A {
    Field54A { party_identifier: None, bic: s("BANKDEFF") }
}
pub fn f55a() -> Field55A {
    Field55A { party_identifier: None, bic: s("BANKDEFF") }
}
pub fn f56a() -> Field56A {
    Field56A { party_identifier: None, bic: s("BANKDEFF") }
}
pub fn f57a() -> Field57A {
    Field57A { party_identifier: None, bic: s("BANKDEFF") }
}
pub fn f58a() -> Field58A {
    Field58A { party_identifier: None, bic: s("BANKDEFF") }
}
pub fn f59(acct: bool) -> Field59NoOption {
    Field59NoOption { account: if acct { Some(s("12345")) } else { None }, name_and_address: vec![s("BEN")] }
}
pub fn f59a(acct: bool) -> Field59A {
    Field59A { account: if acct { Some(s("12345")) } else { None }, bic: s("BANKDEFF") }
}
pub fn f59f() -> Field59F {
    Field59F { party_identifier: Some(s("12345")), name_and_address: vec![s("1/BEN")] }
}
pub fn f72(lines: Vec<String>) -> Field72 {
    Field72 { information: lines }
}

/// Does the error list contain the given code?
pub fn has_code(errs: &[swift_mt_message::errors::SwiftValidationError], code: &str) -> bool {
    let mut i = 0;
    while i < errs.len() {
        if errs[i].error_code() == code {
            return true;
        }
        i += 1;
    }
    false
}
pub fn count_code(errs: &[swift_mt_message::errors::SwiftValidationError], code: &str) -> usize {
    let mut i = 0;
    let mut n = 0;
    while i < errs.len() {
        if errs[i].error_code() == code {
            n += 1;
        }
        i += 1;
    }
    n
}
/// Every reported code is one of `known`.
pub fn only_codes(errs: &[swift_mt_message::errors::SwiftValidationError], known: &[&str]) -> bool {
    let mut i = 0;
    while i < errs.len() {
        let c = errs[i].error_code();
        let mut ok = false;
        let mut k = 0;
        while k < known.len() {
            if known[k] == c {
                ok = true;
            }
            k += 1;
        }
        if !ok {
            return false;
        }
        i += 1;
    }
    true
}

/// Integer key of a SWIFT error code (codes are 3 ASCII characters such as "D75").
pub const fn key(code: &str) -> u32 {
    let b = code.as_bytes();
    if b.len() != 3 {
        return 0;
    }
    ((b[0] as u32) << 16) | ((b[1] as u32) << 8) | (b[2] as u32)
}

pub const MAXE: usize = 8;
/// Keys of the first MAXE reported errors (0 = no error in that position) and the total count.
pub fn keys_of(errs: &[swift_mt_message::errors::SwiftValidationError]) -> ([u32; MAXE], usize) {
    let mut out = [0u32; MAXE];
    let mut i = 0;
    while i < errs.len() && i < MAXE {
        out[i] = key(errs[i].error_code());
        i += 1;
    }
    (out, errs.len())
}
pub fn keys_have(keys: &[u32; MAXE], k: u32) -> bool {
    let mut i = 0;
    while i < MAXE {
        if keys[i] == k {
            return true;
        }
        i += 1;
    }
    false
}
