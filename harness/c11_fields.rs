//! C11 — every date-bearing field reads the same six digits as the same calendar date (50-year pivot),
//! rejects calendar-invalid dates, and exposes that date in its value.
use super::c11::ref_date;
use super::rt::*;
use crate::{vassert, vcover};
use chrono::Datelike;
use swift_mt_message::fields::*;
use swift_mt_message::traits::SwiftField;

/// content = prefix + 6 symbolic digits + suffix (prefix/suffix are canonical valid text for the field)
fn content(prefix: &[u8], d: &[u8; 6], suffix: &[u8]) -> String {
    let mut v = Vec::with_capacity(prefix.len() + 6 + suffix.len());
    v.extend_from_slice(prefix);
    v.extend_from_slice(d);
    v.extend_from_slice(suffix);
    unsafe { String::from_utf8_unchecked(v) }
}

fn digits() -> [u8; 6] {
    let d: [u8; 6] = any_buf();
    let mut i = 0;
    while i < 6 {
        assume(is_digit(d[i]));
        i += 1;
    }
    d
}

macro_rules! date_field {
    ($fname:ident, $ty:ty, $prefix:expr, $suffix:expr, $get:expr) => {
        pub fn $fname() {
            let d = digits();
            let s = content($prefix, &d, $suffix);
            let spec = ref_date(&d);
            let r = <$ty as SwiftField>::parse(&s);
            match r {
                Ok(f) => {
                    vcover!(true, "ok-arm");
                    vassert!(spec.is_some(), "calendar-invalid date accepted");
                    if let Some((y, m, dd)) = spec {
                        let date: chrono::NaiveDate = $get(&f);
                        vassert!(date.year() == y as i32 && date.month() == m && date.day() == dd, "same digits, same date (50-year pivot)");
                    }
                    core::mem::forget(f);
                }
                Err(e) => {
                    vcover!(true, "err-arm");
                    vassert!(spec.is_none(), "valid date rejected");
                    core::mem::forget(e);
                }
            }
            core::mem::forget(s);
        }
    };
}

//# harness: name=c11_field30 prop=C11 tier=quick unwind=10 timeout=900 stubs=fmt
//# functions: fields::field30::Field30::parse
//# bound: all 10^6 six-digit contents, unwind 10
date_field!(field30, Field30, b"", b"", |f: &Field30| f.execution_date);

//# harness: name=c11_field32a prop=C11 tier=quick unwind=20 timeout=1200 stubs=fmt,f64
//# functions: fields::field32::Field32A::parse
//# bound: all 10^6 six-digit dates followed by the constant "USD100,00"; f64 parsing stubbed (amount irrelevant), unwind 20
date_field!(field32a, Field32A, b"", b"USD100,00", |f: &Field32A| f.value_date);

//# harness: name=c11_field32c prop=C11 tier=thorough unwind=20 timeout=1200 stubs=fmt,f64
//# functions: fields::field32::Field32C::parse
//# bound: all 10^6 six-digit dates followed by the constant "USD100,00", unwind 20
date_field!(field32c, Field32C, b"", b"USD100,00", |f: &Field32C| f.value_date);

//# harness: name=c11_field32d prop=C11 tier=thorough unwind=20 timeout=1200 stubs=fmt,f64
//# functions: fields::field32::Field32D::parse
//# bound: all 10^6 six-digit dates followed by the constant "USD100,00", unwind 20
date_field!(field32d, Field32D, b"", b"USD100,00", |f: &Field32D| f.value_date);

//# harness: name=c11_field60f prop=C11 tier=manual unwind=20 timeout=1800 stubs=fmt,f64
//# functions: fields::field60::Field60F::parse
//# bound: "C" + all 10^6 six-digit dates + "USD100,00", unwind 20
date_field!(field60f, Field60F, b"C", b"USD100,00", |f: &Field60F| f.value_date);

//# harness: name=c11_field60m prop=C11 tier=thorough unwind=20 timeout=1200 stubs=fmt,f64
//# functions: fields::field60::Field60M::parse
//# bound: "C" + all 10^6 six-digit dates + "USD100,00", unwind 20
date_field!(field60m, Field60M, b"C", b"USD100,00", |f: &Field60M| f.value_date);

//# harness: name=c11_field62f prop=C11 tier=manual unwind=20 timeout=1200 stubs=fmt,f64
//# functions: fields::field62::Field62F::parse
//# bound: "C" + all 10^6 six-digit dates + "USD100,00", unwind 20
date_field!(field62f, Field62F, b"C", b"USD100,00", |f: &Field62F| f.value_date);

//# harness: name=c11_field62m prop=C11 tier=thorough unwind=20 timeout=1200 stubs=fmt,f64
//# functions: fields::field62::Field62M::parse
//# bound: "C" + all 10^6 six-digit dates + "USD100,00", unwind 20
date_field!(field62m, Field62M, b"C", b"USD100,00", |f: &Field62M| f.value_date);

//# harness: name=c11_field64 prop=C11 tier=thorough unwind=20 timeout=1200 stubs=fmt,f64
//# functions: fields::field64::Field64::parse
//# bound: "C" + all 10^6 six-digit dates + "USD100,00", unwind 20
date_field!(field64, Field64, b"C", b"USD100,00", |f: &Field64| f.value_date);

//# harness: name=c11_field65 prop=C11 tier=thorough unwind=20 timeout=1200 stubs=fmt,f64
//# functions: fields::field65::Field65::parse
//# bound: "C" + all 10^6 six-digit dates + "USD100,00", unwind 20
date_field!(field65, Field65, b"C", b"USD100,00", |f: &Field65| f.value_date);

//# harness: name=c11_field61 prop=C11 tier=manual unwind=40 timeout=1800 stubs=fmt,f64
//# functions: fields::field61::Field61::parse
//# bound: all 10^6 six-digit value dates + "C100,00NTRFREF123", unwind 40
date_field!(field61, Field61, b"", b"C100,00NTRFREF123", |f: &Field61| f.value_date);

//# harness: name=c11_field13d prop=C11 tier=quick unwind=20 timeout=1200 stubs=fmt
//# functions: fields::field13::Field13D::parse
//# bound: all 10^6 six-digit dates + "1200+0100", unwind 20
date_field!(field13d, Field13D, b"", b"1200+0100", |f: &Field13D| f.date);

//# harness: name=c11_field11s prop=C11 tier=manual unwind=20 timeout=1800 stubs=fmt
//# functions: fields::field11::Field11S::parse
//# bound: "103" + all 10^6 six-digit dates, unwind 20
date_field!(field11s, Field11S, b"103", b"", |f: &Field11S| f.date);

//# harness: name=c11_field11r prop=C11 tier=manual unwind=20 timeout=1200 stubs=fmt
//# functions: fields::field11::Field11R::parse
//# bound: "103" + all 10^6 six-digit dates, unwind 20
date_field!(field11r, Field11R, b"103", b"", |f: &Field11R| f.date);
