//! GENERATED from /verif/known_findings.json by lib/common.py — do not edit.
//! One constant per known-finding role: under Kani `true` means the role is assumed away in
//! the property harness (so any *other* violation is still reported); natively always false.
#![allow(dead_code)]
#[cfg(kani)]
pub const KF_C01_MT942_EARLY_13D_REORDERED: bool = true;
#[cfg(not(kani))]
pub const KF_C01_MT942_EARLY_13D_REORDERED: bool = false;
#[cfg(kani)]
pub const KF_C02_MT942_EARLY_13D_NOT_COVERED: bool = true;
#[cfg(not(kani))]
pub const KF_C02_MT942_EARLY_13D_NOT_COVERED: bool = false;
#[cfg(kani)]
pub const KF_C04_MT101_D60: bool = true;
#[cfg(not(kani))]
pub const KF_C04_MT101_D60: bool = false;
#[cfg(kani)]
pub const KF_C04_MT101_E54: bool = true;
#[cfg(not(kani))]
pub const KF_C04_MT101_E54: bool = false;
#[cfg(kani)]
pub const KF_C04_MT104_D21: bool = true;
#[cfg(not(kani))]
pub const KF_C04_MT104_D21: bool = false;
#[cfg(kani)]
pub const KF_C04_MT107_D21: bool = true;
#[cfg(not(kani))]
pub const KF_C04_MT107_D21: bool = false;
#[cfg(kani)]
pub const KF_C04_MT107_C01: bool = true;
#[cfg(not(kani))]
pub const KF_C04_MT107_C01: bool = false;
#[cfg(kani)]
pub const KF_C04_MT107_C02: bool = true;
#[cfg(not(kani))]
pub const KF_C04_MT107_C02: bool = false;
#[cfg(kani)]
pub const KF_C04_MT204_C01: bool = true;
#[cfg(not(kani))]
pub const KF_C04_MT204_C01: bool = false;
#[cfg(kani)]
pub const KF_C10_TRAILER_DISPLAY_DROPS_PDM: bool = true;
#[cfg(not(kani))]
pub const KF_C10_TRAILER_DISPLAY_DROPS_PDM: bool = false;
#[cfg(kani)]
pub const KF_C10_TRAILER_DISPLAY_DROPS_SYS: bool = true;
#[cfg(not(kani))]
pub const KF_C10_TRAILER_DISPLAY_DROPS_SYS: bool = false;
#[cfg(kani)]
pub const KF_C04_MT935_T14: bool = true;
#[cfg(not(kani))]
pub const KF_C04_MT935_T14: bool = false;
#[cfg(kani)]
pub const KF_C10_APPLICATIONHEADER_DISPLAY_DROPS_UNDOCUMENTED_SHAPE: bool = true;
#[cfg(not(kani))]
pub const KF_C10_APPLICATIONHEADER_DISPLAY_DROPS_UNDOCUMENTED_SHAPE: bool = false;
#[cfg(kani)]
pub const KF_C10_TRAILER_PARSE_DROPS_PDE: bool = true;
#[cfg(not(kani))]
pub const KF_C10_TRAILER_PARSE_DROPS_PDE: bool = false;
#[cfg(kani)]
pub const KF_C10_TRAILER_PARSE_DROPS_MRF: bool = true;
#[cfg(not(kani))]
pub const KF_C10_TRAILER_PARSE_DROPS_MRF: bool = false;
#[cfg(kani)]
pub const KF_C10_TRAILER_PARSE_DROPS_PDM: bool = true;
#[cfg(not(kani))]
pub const KF_C10_TRAILER_PARSE_DROPS_PDM: bool = false;
#[cfg(kani)]
pub const KF_C10_TRAILER_PARSE_DROPS_SYS: bool = true;
#[cfg(not(kani))]
pub const KF_C10_TRAILER_PARSE_DROPS_SYS: bool = false;
#[cfg(kani)]
pub const KF_C10_USERHEADER_WRONG_SHAPE_PARTLY_READ_423: bool = true;
#[cfg(not(kani))]
pub const KF_C10_USERHEADER_WRONG_SHAPE_PARTLY_READ_423: bool = false;
#[cfg(kani)]
pub const KF_C10_USERHEADER_WRONG_SHAPE_PARTLY_READ_106: bool = true;
#[cfg(not(kani))]
pub const KF_C10_USERHEADER_WRONG_SHAPE_PARTLY_READ_106: bool = false;
#[cfg(kani)]
pub const KF_C10_USERHEADER_WRONG_SHAPE_PARTLY_READ_165: bool = true;
#[cfg(not(kani))]
pub const KF_C10_USERHEADER_WRONG_SHAPE_PARTLY_READ_165: bool = false;
#[cfg(kani)]
pub const KF_C10_USERHEADER_WRONG_SHAPE_PARTLY_READ_433: bool = true;
#[cfg(not(kani))]
pub const KF_C10_USERHEADER_WRONG_SHAPE_PARTLY_READ_433: bool = false;
#[cfg(kani)]
pub const KF_C10_USERHEADER_WRONG_SHAPE_PARTLY_READ_434: bool = true;
#[cfg(not(kani))]
pub const KF_C10_USERHEADER_WRONG_SHAPE_PARTLY_READ_434: bool = false;
#[cfg(kani)]
pub const KF_C05_FIELD20_ACCEPTS_OUTSIDE_FORMAT: bool = true;
#[cfg(not(kani))]
pub const KF_C05_FIELD20_ACCEPTS_OUTSIDE_FORMAT: bool = false;
#[cfg(kani)]
pub const KF_C05_FIELD21F_ACCEPTS_OUTSIDE_FORMAT: bool = true;
#[cfg(not(kani))]
pub const KF_C05_FIELD21F_ACCEPTS_OUTSIDE_FORMAT: bool = false;
#[cfg(kani)]
pub const KF_C05_FIELD21NOOPTION_ACCEPTS_OUTSIDE_FORMAT: bool = true;
#[cfg(not(kani))]
pub const KF_C05_FIELD21NOOPTION_ACCEPTS_OUTSIDE_FORMAT: bool = false;
#[cfg(kani)]
pub const KF_C05_FIELD21R_ACCEPTS_OUTSIDE_FORMAT: bool = true;
#[cfg(not(kani))]
pub const KF_C05_FIELD21R_ACCEPTS_OUTSIDE_FORMAT: bool = false;
#[cfg(kani)]
pub const KF_C05_FIELD77T_ACCEPTS_OUTSIDE_FORMAT: bool = true;
#[cfg(not(kani))]
pub const KF_C05_FIELD77T_ACCEPTS_OUTSIDE_FORMAT: bool = false;
#[cfg(kani)]
pub const KF_C05_FIELD23_ACCEPTS_OUTSIDE_FORMAT: bool = true;
#[cfg(not(kani))]
pub const KF_C05_FIELD23_ACCEPTS_OUTSIDE_FORMAT: bool = false;
#[cfg(kani)]
pub const KF_C05_FIELD25A_ACCEPTS_OUTSIDE_FORMAT: bool = true;
#[cfg(not(kani))]
pub const KF_C05_FIELD25A_ACCEPTS_OUTSIDE_FORMAT: bool = false;
#[cfg(kani)]
pub const KF_C05_FIELD52C_ACCEPTS_OUTSIDE_FORMAT: bool = true;
#[cfg(not(kani))]
pub const KF_C05_FIELD52C_ACCEPTS_OUTSIDE_FORMAT: bool = false;
#[cfg(kani)]
pub const KF_C05_FIELD56C_ACCEPTS_OUTSIDE_FORMAT: bool = true;
#[cfg(not(kani))]
pub const KF_C05_FIELD56C_ACCEPTS_OUTSIDE_FORMAT: bool = false;
#[cfg(kani)]
pub const KF_C05_FIELD57C_ACCEPTS_OUTSIDE_FORMAT: bool = true;
#[cfg(not(kani))]
pub const KF_C05_FIELD57C_ACCEPTS_OUTSIDE_FORMAT: bool = false;
#[cfg(kani)]
pub const KF_C05_FIELD26T_ACCEPTS_OUTSIDE_FORMAT: bool = true;
#[cfg(not(kani))]
pub const KF_C05_FIELD26T_ACCEPTS_OUTSIDE_FORMAT: bool = false;
#[cfg(kani)]
pub const KF_C05_FIELD19_ACCEPTS_OUTSIDE_FORMAT: bool = true;
#[cfg(not(kani))]
pub const KF_C05_FIELD19_ACCEPTS_OUTSIDE_FORMAT: bool = false;
#[cfg(kani)]
pub const KF_C05_FIELD32B_ACCEPTS_OUTSIDE_FORMAT: bool = true;
#[cfg(not(kani))]
pub const KF_C05_FIELD32B_ACCEPTS_OUTSIDE_FORMAT: bool = false;
#[cfg(kani)]
pub const KF_C05_FIELD33B_ACCEPTS_OUTSIDE_FORMAT: bool = true;
#[cfg(not(kani))]
pub const KF_C05_FIELD33B_ACCEPTS_OUTSIDE_FORMAT: bool = false;
#[cfg(kani)]
pub const KF_C05_FIELD71F_ACCEPTS_OUTSIDE_FORMAT: bool = true;
#[cfg(not(kani))]
pub const KF_C05_FIELD71F_ACCEPTS_OUTSIDE_FORMAT: bool = false;
#[cfg(kani)]
pub const KF_C05_FIELD71G_ACCEPTS_OUTSIDE_FORMAT: bool = true;
#[cfg(not(kani))]
pub const KF_C05_FIELD71G_ACCEPTS_OUTSIDE_FORMAT: bool = false;
#[cfg(kani)]
pub const KF_C05_FIELD60F_ACCEPTS_OUTSIDE_FORMAT: bool = true;
#[cfg(not(kani))]
pub const KF_C05_FIELD60F_ACCEPTS_OUTSIDE_FORMAT: bool = false;
#[cfg(kani)]
pub const KF_C05_FIELD62F_ACCEPTS_OUTSIDE_FORMAT: bool = true;
#[cfg(not(kani))]
pub const KF_C05_FIELD62F_ACCEPTS_OUTSIDE_FORMAT: bool = false;
#[cfg(kani)]
pub const KF_C05_FIELD64_ACCEPTS_OUTSIDE_FORMAT: bool = true;
#[cfg(not(kani))]
pub const KF_C05_FIELD64_ACCEPTS_OUTSIDE_FORMAT: bool = false;
#[cfg(kani)]
pub const KF_C05_FIELD65_ACCEPTS_OUTSIDE_FORMAT: bool = true;
#[cfg(not(kani))]
pub const KF_C05_FIELD65_ACCEPTS_OUTSIDE_FORMAT: bool = false;
