//! GENERATED from /verif/known_findings.json by lib/common.py — do not edit.
//! One constant per known-finding role: under Kani `true` means the role is assumed away in
//! the property harness (so any *other* violation is still reported); natively always false.
#![allow(dead_code)]
#[cfg(kani)]
pub const KF_C01_MT942_EARLY_13D_REORDERED: bool = true;
#[cfg(not(kani))]
pub const KF_C01_MT942_EARLY_13D_REORDERED: bool = false;
#[cfg(kani)]
pub const KF_C02_MT942_EARLY_13D_NOT_COVERED: bool = true;
#[cfg(not(kani))]
pub const KF_C02_MT942_EARLY_13D_NOT_COVERED: bool = false;
#[cfg(kani)]
pub const KF_C04_MT101_D60: bool = true;
#[cfg(not(kani))]
pub const KF_C04_MT101_D60: bool = false;
#[cfg(kani)]
pub const KF_C04_MT101_E54: bool = true;
#[cfg(not(kani))]
pub const KF_C04_MT101_E54: bool = false;
#[cfg(kani)]
pub const KF_C04_MT104_D21: bool = true;
#[cfg(not(kani))]
pub const KF_C04_MT104_D21: bool = false;
#[cfg(kani)]
pub const KF_C04_MT107_D21: bool = true;
#[cfg(not(kani))]
pub const KF_C04_MT107_D21: bool = false;
#[cfg(kani)]
pub const KF_C04_MT107_C01: bool = true;
#[cfg(not(kani))]
pub const KF_C04_MT107_C01: bool = false;
#[cfg(kani)]
pub const KF_C04_MT107_C02: bool = true;
#[cfg(not(kani))]
pub const KF_C04_MT107_C02: bool = false;
#[cfg(kani)]
pub const KF_C04_MT204_C01: bool = true;
#[cfg(not(kani))]
pub const KF_C04_MT204_C01: bool = false;
#[cfg(kani)]
pub const KF_C10_TRAILER_DISPLAY_DROPS_PDM: bool = true;
#[cfg(not(kani))]
pub const KF_C10_TRAILER_DISPLAY_DROPS_PDM: bool = false;
#[cfg(kani)]
pub const KF_C10_TRAILER_DISPLAY_DROPS_SYS: bool = true;
#[cfg(not(kani))]
pub const KF_C10_TRAILER_DISPLAY_DROPS_SYS: bool = false;
#[cfg(kani)]
pub const KF_C04_MT935_T14: bool = true;
#[cfg(not(kani))]
pub const KF_C04_MT935_T14: bool = false;
#[cfg(kani)]
pub const KF_C10_APPLICATIONHEADER_DISPLAY_DROPS_UNDOCUMENTED_SHAPE: bool = true;
#[cfg(not(kani))]
pub const KF_C10_APPLICATIONHEADER_DISPLAY_DROPS_UNDOCUMENTED_SHAPE: bool = false;
