//! GENERATED from /verif/known_findings.json by lib/common.py — do not edit.
//! One constant per known-finding role: under Kani `true` means the role is assumed away in
//! the property harness (so any *other* violation is still reported); natively always false.
#![allow(dead_code)]
