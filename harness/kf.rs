//! GENERATED from /verif/known_findings.json by lib/common.py — do not edit.
//! One constant per known-finding role: under Kani `true` means the role is assumed away in
//! the property harness (so any *other* violation is still reported); natively always false.
#![allow(dead_code)]
#[cfg(kani)]
pub const KF_C01_MT942_EARLY_13D_REORDERED: bool = true;
#[cfg(not(kani))]
pub const KF_C01_MT942_EARLY_13D_REORDERED: bool = false;
#[cfg(kani)]
pub const KF_C02_MT942_EARLY_13D_NOT_COVERED: bool = true;
#[cfg(not(kani))]
pub const KF_C02_MT942_EARLY_13D_NOT_COVERED: bool = false;
