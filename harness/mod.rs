//! Harness bodies shared by the Kani crate and the native replayer.
pub mod rt;
pub mod kf;
pub mod c11;
