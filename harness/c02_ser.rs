//! C02 / C01 — byte-level serialisation helpers that the token machine treats as the identity.
use super::rt::*;
use crate::{vassert, vcover};
use swift_mt_message::parser::utils::{finalize_mt_string, remove_trailing_crlf};

//# harness: name=c02_finalize prop=C02,C01 tier=quick unwind=10 timeout=600 stubs=fmt
//# functions: parser::utils::finalize_mt_string, parser::utils::remove_trailing_crlf
//# bound: all ASCII strings of 0..6 bytes, with and without terminator, unwind 10
pub fn finalize() {
    let b: [u8; 6] = any_buf();
    let len = any_below(7);
    assume(is_ascii(&b, len));
    let add = any_bool();
    let s = as_str(&b, len).to_string();
    let out = finalize_mt_string(s, add);
    let o = out.as_bytes();
    // reference: strip exactly one trailing CRLF, then append '-' when requested; nothing else changes
    let strip = len >= 2 && b[len - 2] == b'\r' && b[len - 1] == b'\n';
    let keep = if strip { len - 2 } else { len };
    vassert!(o.len() == keep + if add { 1 } else { 0 }, "length");
    let mut i = 0;
    while i < keep {
        vassert!(o[i] == b[i], "content preserved");
        i += 1;
    }
    if add {
        vassert!(o[keep] == b'-', "terminator");
    }
    vcover!(strip, "crlf-stripped");
    core::mem::forget(out);
}
