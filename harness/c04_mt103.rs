//! C04/C13 — MT103 network validation vs. a reference model of the documented rules.
//! The message is a struct literal whose *shape* is symbolic (presence bits, code indices, equal /
//! different currencies); the real `validate_network_rules` runs on it and the reported set of error
//! codes is compared with the reference written from the rule texts in the doc comments.
use super::build::*;
use super::rt::*;
use crate::{vassert, vcover};
use swift_mt_message::fields::*;
use swift_mt_message::messages::MT103;

const B23B: [&str; 6] = ["CRED", "CRTS", "SPAY", "SPRI", "SSTD", "XXXX"];
// 12 valid codes + one that is not in the list
const C23E: [&str; 13] = [
    "SDVA", "INTC", "REPA", "CORT", "HOLD", "CHQB", "PHOB", "TELB", "PHON", "TELE", "PHOI", "TELI", "ZZZZ",
];
// documented order for D98 (index in C23E == position in the order list), ZZZZ has none
fn addl_allowed(i: usize) -> bool {
    // PHON, PHOB, PHOI, TELE, TELB, TELI, HOLD, REPA
    matches!(i, 8 | 6 | 10 | 9 | 7 | 11 | 4 | 2)
}
fn forbidden_with(base: usize, other: usize) -> bool {
    // D67 table from the MT103 rule text: (SDVA:{HOLD,CHQB}) (INTC:{HOLD,CHQB}) (REPA:{HOLD,CHQB,CORT})
    // (CORT:{HOLD,CHQB}) (HOLD:{CHQB}) (PHOB:{TELB}) (PHON:{TELE}) (PHOI:{TELI})
    match base {
        0 | 1 | 3 => other == 4 || other == 5,
        2 => other == 4 || other == 5 || other == 3,
        4 => other == 5,
        6 => other == 7,
        8 => other == 9,
        10 => other == 11,
        _ => false,
    }
}

pub struct Shape {
    pub b23b: usize,
    pub n23e: usize,
    pub e_code: [usize; 3],
    pub e_addl: [bool; 3],
    pub has33b: bool,
    pub same33b: bool,
    pub has36: bool,
    pub has53: bool,
    pub has54: bool,
    pub has55: bool,
    pub has56: bool,
    pub has57: bool,
    pub v59: usize, // 0 NoOption+acct 1 NoOption 2 A+acct 3 A 4 F
    pub c71a: usize, // OUR SHA BEN other
    pub n71f: usize,
    pub has71g: bool,
    pub same71g: bool,
}

pub fn neutral() -> Shape {
    Shape {
        b23b: 0, n23e: 0, e_code: [0; 3], e_addl: [false; 3], has33b: false, same33b: true, has36: false,
        has53: false, has54: false, has55: false, has56: false, has57: false, v59: 1, c71a: 1, n71f: 0,
        has71g: false, same71g: true,
    }
}

pub fn build(sh: &Shape) -> MT103 {
    let c71a = ["OUR", "SHA", "BEN", "XXX"];
    let e23 = |i: usize| Field23E {
        instruction_code: s(C23E[sh.e_code[i]]),
        additional_info: if sh.e_addl[i] { Some(s("INFO")) } else { None },
    };
    let e = match sh.n23e {
        0 => None,
        1 => Some(vec![e23(0)]),
        2 => Some(vec![e23(0), e23(1)]),
        _ => Some(vec![e23(0), e23(1), e23(2)]),
    };
    let c71f = || Field71F { currency: s("USD"), amount: 1.0 };
    let f71f = match sh.n71f {
        0 => None,
        1 => Some(vec![c71f()]),
        _ => Some(vec![c71f(), c71f()]),
    };
    MT103 {
        field_20: f20(),
        field_23b: Field23B { instruction_code: s(B23B[sh.b23b]) },
        field_32a: f32a(s("USD"), 100.0),
        field_50: Field50OrderingCustomerAFK::K(f50k()),
        field_59: match sh.v59 {
            0 => Field59::NoOption(f59(true)),
            1 => Field59::NoOption(f59(false)),
            2 => Field59::A(f59a(true)),
            3 => Field59::A(f59a(false)),
            _ => Field59::F(f59f()),
        },
        field_71a: Field71A { code: s(c71a[sh.c71a]) },
        field_13c: None,
        field_23e: e,
        field_26t: None,
        field_33b: if sh.has33b { Some(f33b(ccy(sh.same33b), 100.0)) } else { None },
        field_36: if sh.has36 { Some(Field36 { rate: 1.5 }) } else { None },
        field_51a: None,
        field_52: None,
        field_53: if sh.has53 { Some(Field53SenderCorrespondent::A(f53a())) } else { None },
        field_54: if sh.has54 { Some(Field54ReceiverCorrespondent::A(f54a())) } else { None },
        field_55: if sh.has55 { Some(Field55ThirdReimbursementInstitution::A(f55a())) } else { None },
        field_56: if sh.has56 { Some(Field56Intermediary::A(f56a())) } else { None },
        field_57: if sh.has57 { Some(Field57AccountWithInstitution::A(f57a())) } else { None },
        field_70: None,
        field_71f: f71f,
        field_71g: if sh.has71g { Some(Field71G { currency: ccy(sh.same71g), amount: 1.0 }) } else { None },
        field_72: None,
        field_77b: None,
        field_77t: None,
    }
}

pub const CODES: [&str; 20] = [
    "T36", "T48", "D97", "E46", "D98", "D67", "D75", "E01", "E02", "E06", "C81", "E16", "E13", "D50", "E15", "D51",
    "C02", "E18", "E44", "E45",
];

/// Reference model: which codes must be reported for a shape (rule texts of SR2025 MT103 as documented).
pub fn expected(sh: &Shape) -> [bool; 20] {
    let mut x = [false; 20];
    let spri = sh.b23b == 3;
    let sstd_spay = sh.b23b == 2 || sh.b23b == 4;
    // T36: 23B must be one of CRED CRTS SPAY SPRI SSTD
    x[0] = sh.b23b == 5;
    let mut i = 0;
    let mut last_pos: Option<usize> = None;
    while i < sh.n23e {
        let c = sh.e_code[i];
        // T48: code must be in the list
        if c == 12 {
            x[1] = true;
        }
        // D97: additional information only with PHON PHOB PHOI TELE TELB TELI HOLD REPA
        if sh.e_addl[i] && !addl_allowed(c) {
            x[2] = true;
        }
        // E46: same code more than once
        let mut j = 0;
        while j < i {
            if sh.e_code[j] == c {
                x[3] = true;
            }
            // D67: forbidden combinations (either direction of the pair as listed)
            if forbidden_with(c, sh.e_code[j]) || forbidden_with(sh.e_code[j], c) {
                x[5] = true;
            }
            j += 1;
        }
        // D98: codes must appear in the documented order
        if c < 12 {
            if let Some(p) = last_pos {
                if c < p {
                    x[4] = true;
                }
            }
            last_pos = Some(c);
        }
        // E01: SPRI allows only SDVA TELB PHOB INTC
        if spri && !(c == 0 || c == 7 || c == 6 || c == 1) {
            x[7] = true;
        }
        // E44: without 56a no TELI / PHOI
        if !sh.has56 && (c == 11 || c == 10) {
            x[18] = true;
        }
        // E45: without 57a no TELE / PHON
        if !sh.has57 && (c == 9 || c == 8) {
            x[19] = true;
        }
        i += 1;
    }
    // E02: SSTD / SPAY: 23E must not be used
    x[8] = sstd_spay && sh.n23e > 0;
    // D75 (C1)
    x[6] = if sh.has33b { if sh.same33b { sh.has36 } else { !sh.has36 } } else { sh.has36 };
    // E06 (C4)
    x[9] = sh.has55 && (!sh.has53 || !sh.has54);
    // C81 (C5)
    x[10] = sh.has56 && !sh.has57;
    // E16 (C6)
    x[11] = spri && sh.has56;
    // C7: 71A OUR -> no 71F (E13); SHA -> no 71G (D50); BEN -> 71F mandatory, no 71G (E15)
    x[12] = sh.c71a == 0 && sh.n71f > 0;
    x[13] = sh.c71a == 1 && sh.has71g;
    x[14] = sh.c71a == 2 && (sh.n71f == 0 || sh.has71g);
    // D51 (C8)
    x[15] = (sh.n71f > 0 || sh.has71g) && !sh.has33b;
    // C02 (C9)
    x[16] = sh.has71g && !sh.same71g;
    // E18 (C13): CHQB present -> no account in 59a (options no-letter and A)
    let mut chqb = false;
    let mut k = 0;
    while k < sh.n23e {
        if sh.e_code[k] == 5 {
            chqb = true;
        }
        k += 1;
    }
    x[17] = chqb && (sh.v59 == 0 || sh.v59 == 2);
    x
}

pub fn check(sh: &Shape) {
    let m = build(sh);
    let errs = m.validate_network_rules(false);
    let exp = expected(sh);
    let (keys, n) = keys_of(&errs);
    vassert!(n <= MAXE, "error-count-within-harness-capacity");
    let mut any = false;
    let mut i = 0;
    while i < 20 {
        vassert!(keys_have(&keys, key(CODES[i])) == exp[i], "code-reported-iff-rule-violated");
        any = any || exp[i];
        i += 1;
    }
    // every reported code is a documented one
    let mut k = 0;
    while k < MAXE {
        if keys[k] != 0 {
            let mut known = false;
            let mut c = 0;
            while c < 20 {
                if key(CODES[c]) == keys[k] {
                    known = true;
                }
                c += 1;
            }
            vassert!(known, "no-undocumented-code");
        }
        k += 1;
    }
    vassert!((n == 0) == !any, "empty-iff-no-rule-violated");
    vcover!(n == 0, "clean-message");
    vcover!(n > 0, "violating-message");
    core::mem::forget(errs);
    core::mem::forget(m);
}

/// C13: coherence of the two validation modes and stability under re-validation.
pub fn check_modes(sh: &Shape) {
    let m = build(sh);
    let errs = m.validate_network_rules(false);
    vcover!(errs.len() >= 2, "several-errors");
    // C13: stop-on-first-error is a non-empty prefix exactly when the full list is non-empty, re-validation is stable
    let first = m.validate_network_rules(true);
    vassert!(first.is_empty() == errs.is_empty(), "stop-on-first-nonempty-iff-full-nonempty");
    vassert!(first.len() <= errs.len(), "stop-on-first-is-prefix-len");
    let mut k = 0;
    while k < first.len() {
        vassert!(key(first[k].error_code()) == key(errs[k].error_code()), "stop-on-first-is-prefix");
        k += 1;
    }
    let again = m.validate_network_rules(false);
    vassert!(again.len() == errs.len(), "revalidation-stable-len");
    let mut k = 0;
    while k < again.len() {
        vassert!(key(again[k].error_code()) == key(errs[k].error_code()), "revalidation-stable");
        k += 1;
    }
    core::mem::forget(first);
    core::mem::forget(again);
    core::mem::forget(errs);
    core::mem::forget(m);
}

//# harness: name=c04_mt103_codes prop=C04,C13 tier=quick unwind=10 timeout=600 stubs=fmt,hash
//# functions: messages::mt103::MT103::validate_network_rules, MT103::validate_field_23b, MT103::validate_field_23e, MT103::validate_c3_bank_op_instruction_codes, MT103::validate_c6_field_56_restrictions, MT103::validate_c13_chqb_beneficiary_account, MT103::validate_c16_teli_phoi_restriction, MT103::validate_c17_tele_phon_restriction, MT103::validate_c5_intermediary
//# bound: 23B in 5 valid codes + 1 invalid; 0..2 occurrences of 23E each over 12 valid codes + 1 invalid, with/without additional info; 56a/57a present/absent; 59a in {no-letter, A} x {account, none} + F; other fields rule-neutral; unwind 14
pub fn codes_group() {
    let mut sh = neutral();
    sh.b23b = any_below(6);
    sh.n23e = any_below(3);
    sh.e_code = [any_below(13), any_below(13), 0];
    sh.e_addl = [any_bool(), any_bool(), false];
    sh.has56 = any_bool();
    sh.has57 = any_bool();
    sh.v59 = any_below(5);
    check(&sh);
}

//# harness: name=c04_mt103_amounts prop=C04,C13 tier=quick unwind=10 timeout=600 stubs=fmt,hash
//# functions: messages::mt103::MT103::validate_network_rules, MT103::validate_c1_currency_exchange, MT103::validate_c4_third_reimbursement, MT103::validate_c7_charges, MT103::validate_c8_charges_instructed_amount, MT103::validate_c9_receiver_charges_currency
//# bound: 33B present/absent with equal/different currency, 36 present/absent, 53a/54a/55a present/absent, 71A in {OUR,SHA,BEN,other}, 0..2 occurrences of 71F, 71G present/absent with equal/different currency; other fields rule-neutral; unwind 14
pub fn amounts_group() {
    let mut sh = neutral();
    sh.has33b = any_bool();
    sh.same33b = any_bool();
    sh.has36 = any_bool();
    sh.has53 = any_bool();
    sh.has54 = any_bool();
    sh.has55 = any_bool();
    sh.c71a = any_below(4);
    sh.n71f = any_below(3);
    sh.has71g = any_bool();
    sh.same71g = any_bool();
    check(&sh);
}

//# harness: name=c04_mt103_c1 prop=C04 tier=quick unwind=10 timeout=600 stubs=fmt,hash
//# functions: MT103::validate_c1_currency_exchange
//# bound: 33B present/absent with equal/different currency, 36 present/absent
pub fn c1_group() {
    let mut sh = neutral();
    sh.has33b = any_bool();
    sh.same33b = any_bool();
    sh.has36 = any_bool();
    check(&sh);
}
