//! C16 — legacy field-map tokeniser and sequential consumption (bounded kernels).
use super::rt::*;
use crate::{vassert, vcover};
use swift_mt_message::parser::{extract_base_tag, FieldConsumptionTracker};

fn eq(s: &str, b: &[u8]) -> bool {
    let x = s.as_bytes();
    if x.len() != b.len() {
        return false;
    }
    let mut i = 0;
    while i < b.len() {
        if x[i] != b[i] {
            return false;
        }
        i += 1;
    }
    true
}

//# harness: name=c16_extract_base_tag prop=C16,C07 tier=quick unwind=8 timeout=600 stubs=fmt
//# functions: parser::generated::extract_base_tag
//# bound: all UTF-8 strings of 0..5 bytes, unwind 8
pub fn base_tag() {
    let b: [u8; 5] = any_buf();
    let len = any_below(6);
    assume(is_utf8(&b, len));
    let s = as_str(&b, len);
    let r = extract_base_tag(s);
    // reference: everything before the first '#', or the whole tag
    let mut cut = len;
    let mut i = 0;
    while i < len {
        if b[i] == b'#' && cut == len {
            cut = i;
        }
        i += 1;
    }
    vassert!(eq(r, &b[..cut]), "base tag is the text before the first '#'");
    vcover!(cut < len, "indexed-tag");
    vcover!(cut == len, "plain-tag");
}

//# harness: name=c16_tracker prop=C16 tier=manual unwind=8 timeout=3000 stubs=fmt,hash
//# functions: parser::swift_parser::FieldConsumptionTracker::{new,mark_consumed,get_next_available}
//# bound: one tag with 3 occurrences carrying symbolic distinct position stamps (< 16), any interleaving of 4 get/mark steps chosen by symbolic bits
pub fn tracker() {
    let p0 = any_below(16);
    let p1 = any_below(16);
    let p2 = any_below(16);
    assume(p0 != p1 && p1 != p2 && p0 != p2);
    let values = vec![("A".to_string(), p0), ("B".to_string(), p1), ("C".to_string(), p2)];
    let mut t = FieldConsumptionTracker::new();
    let mut consumed = [false; 3];
    let mut step = 0;
    while step < 4 {
        let do_mark = any_bool();
        // reference: the first unconsumed occurrence in input order
        let mut want: Option<usize> = None;
        let mut k = 0;
        while k < 3 {
            if !consumed[k] && want.is_none() {
                want = Some(k);
            }
            k += 1;
        }
        let got = t.get_next_available("20", &values);
        match (got, want) {
            (Some((v, pos)), Some(w)) => {
                vassert!(pos == values[w].1, "next available is the first unconsumed occurrence (stamp)");
                vassert!(v.as_bytes()[0] == values[w].0.as_bytes()[0], "next available is the first unconsumed occurrence (value)");
                if do_mark {
                    t.mark_consumed("20", pos);
                    consumed[w] = true;
                }
            }
            (None, None) => {
                vcover!(true, "exhausted");
            }
            _ => {
                vassert!(false, "availability differs from the reference");
            }
        }
        step += 1;
    }
    vcover!(consumed[0] && consumed[1] && consumed[2], "all-consumed");
    core::mem::forget(t);
    core::mem::forget(values);
}

use swift_mt_message::parser::{normalize_field_tag, parse_block4_fields};

const KEEP: [&[u8]; 26] = [b"11", b"13", b"21", b"23", b"25", b"26", b"28", b"32", b"33", b"34", b"37", b"50", b"51", b"52", b"53",
    b"54", b"55", b"56", b"57", b"58", b"59", b"60", b"62", b"71", b"77", b"90"];

//# harness: name=c16_normalize_tag prop=C16,C07 tier=quick unwind=28 timeout=900 stubs=fmt
//# functions: parser::generated::normalize_field_tag
//# bound: all ASCII strings of 0..4 bytes, unwind 28
pub fn normalize_tag() {
    let b: [u8; 4] = any_buf();
    let len = any_below(5);
    assume(is_ascii(&b, len));
    let s = as_str(&b, len);
    let r = normalize_field_tag(s);
    // reference (documented): the option letter is removed only for numeric tags that are not in the keep list and whose
    // suffix consists of upper-case letters; indexed tags ('#') are kept
    let mut has_hash = false;
    let mut n = len;
    let mut i = 0;
    while i < len {
        if b[i] == b'#' {
            has_hash = true;
        }
        if !is_digit(b[i]) && n == len {
            n = i;
        }
        i += 1;
    }
    let mut keep = false;
    let mut k = 0;
    while k < KEEP.len() {
        if n == 2 && KEEP[k][0] == b[0] && KEEP[k][1] == b[1] {
            keep = true;
        }
        k += 1;
    }
    let mut suffix_upper = true;
    let mut j = n;
    while j < len {
        if !is_upper(b[j]) {
            suffix_upper = false;
        }
        j += 1;
    }
    let strip = !has_hash && n < len && !keep && suffix_upper;
    let want_len = if strip { n } else { len };
    vassert!(eq(&r, &b[..want_len]), "normalised tag");
    vcover!(strip, "letter-stripped");
    vcover!(!strip && n < len, "letter-kept");
    core::mem::forget(r);
}

//# harness: name=c16_block4_fields prop=C16,C07 tier=manual unwind=12 timeout=3000 stubs=fmt,hash,eprint
//# functions: parser::generated::parse_block4_fields
//# bound: texts ":20:" + 5 symbolic bytes from the alphabet {':', '\n', '2', '1', 'A'} (at most 2 fields), unwind 12
pub fn block4_fields() {
    let mut b = [0u8; 9];
    b[0] = b':';
    b[1] = b'2';
    b[2] = b'0';
    b[3] = b':';
    let mut i = 4;
    while i < 9 {
        let c = any_below(5);
        b[i] = [b':', b'\n', b'2', b'1', b'A'][c];
        i += 1;
    }
    let s = as_str(&b, 9);
    let r = parse_block4_fields(s);
    match r {
        Ok(map) => {
            vcover!(true, "ok-arm");
            // the first field is always there, under tag 20, with position stamp 0 in its low 16 bits
            let v = map.get("20");
            vassert!(v.is_some(), "field 20 present");
            let v = v.unwrap();
            vassert!(v.len() >= 1, "one value");
            vassert!(v[0].1 & 0xFFFF == 0, "first field has stamp 0");
            // stamps strictly increase within a tag
            if v.len() >= 2 {
                vassert!((v[1].1 & 0xFFFF) > (v[0].1 & 0xFFFF), "stamps increase");
                vcover!(true, "two-values-under-20");
            }
            // nothing is invented: at most as many values in total as there are "\n:" separators + 1
            let mut seps = 1;
            let mut k = 4;
            while k + 1 < 9 {
                if b[k] == b'\n' && b[k + 1] == b':' {
                    seps += 1;
                }
                k += 1;
            }
            let mut total = 0;
            for (_, vals) in map.iter() {
                total += vals.len();
            }
            vassert!(total <= seps, "no invented entries");
            core::mem::forget(map);
        }
        Err(e) => {
            vcover!(true, "err-arm");
            core::mem::forget(e);
        }
    }
}
