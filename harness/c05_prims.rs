//! C05 / C07 — primitive validators of src/fields/swift_utils.rs: accept exactly the documented class,
//! never panic, on every UTF-8 string up to the stated length.
use super::rt::*;
use crate::{vassert, vcover};
use swift_mt_message::fields::swift_utils::*;

fn all<F: Fn(u8) -> bool>(b: &[u8], len: usize, f: F) -> bool {
    let mut i = 0;
    while i < len {
        if !f(b[i]) {
            return false;
        }
        i += 1;
    }
    true
}

macro_rules! decide {
    ($r:expr, $spec:expr, $name:expr) => {
        match $r {
            Ok(v) => {
                vcover!(true, "ok-arm");
                vassert!($spec, concat!($name, ": accepted outside the documented class"));
                core::mem::forget(v);
            }
            Err(e) => {
                vcover!(true, "err-arm");
                vassert!(!$spec, concat!($name, ": documented value rejected"));
                core::mem::forget(e);
            }
        }
    };
}

//# harness: name=c05_swift_digits prop=C05,C07 tier=quick unwind=8 timeout=600 stubs=fmt
//# functions: fields::swift_utils::parse_swift_digits, fields::swift_utils::parse_numeric
//# bound: all UTF-8 strings of 0..5 bytes, unwind 8
pub fn swift_digits() {
    let b: [u8; 5] = any_buf();
    let len = any_below(6);
    assume(is_utf8(&b, len));
    let s = as_str(&b, len);
    let spec = all(&b, len, is_digit);
    decide!(parse_swift_digits(s, "f"), spec, "parse_swift_digits");
    decide!(parse_numeric(s, "f"), spec, "parse_numeric");
}

//# harness: name=c05_alnum_upper prop=C05,C07 tier=quick unwind=8 timeout=600 stubs=fmt
//# functions: fields::swift_utils::parse_alphanumeric, fields::swift_utils::parse_uppercase
//# bound: all UTF-8 strings of 0..5 bytes, unwind 8
pub fn alnum_upper() {
    let b: [u8; 5] = any_buf();
    let len = any_below(6);
    assume(is_utf8(&b, len));
    let s = as_str(&b, len);
    let alnum = all(&b, len, |c| is_digit(c) || is_upper(c) || (c >= b'a' && c <= b'z'));
    decide!(parse_alphanumeric(s, "f"), alnum, "parse_alphanumeric");
    // documented: uppercase letters (the library also admits ASCII white space between them)
    let upper = all(&b, len, |c| is_upper(c) || c == b' ' || c == 9 || c == 10 || c == 12 || c == 13);
    decide!(parse_uppercase(s, "f"), upper, "parse_uppercase");
}

//# harness: name=c05_lengths prop=C05,C07 tier=quick unwind=8 timeout=600 stubs=fmt
//# functions: fields::swift_utils::parse_exact_length, fields::swift_utils::parse_max_length, fields::swift_utils::parse_length_range
//# bound: all UTF-8 strings of 0..6 bytes against limits 0..7, unwind 8
pub fn lengths() {
    let b: [u8; 6] = any_buf();
    let len = any_below(7);
    assume(is_utf8(&b, len));
    let s = as_str(&b, len);
    let n = any_below(8);
    let lo = any_below(8);
    decide!(parse_exact_length(s, n, "f"), len == n, "parse_exact_length");
    decide!(parse_max_length(s, n, "f"), len <= n, "parse_max_length");
    decide!(parse_length_range(s, lo, n, "f"), len >= lo && len <= n, "parse_length_range");
}

pub fn ref_bic(b: &[u8], len: usize) -> bool {
    if len != 8 && len != 11 {
        return false;
    }
    let alpha = |c: u8| is_upper(c) || (c >= b'a' && c <= b'z');
    let alnum = |c: u8| alpha(c) || is_digit(c);
    let mut i = 0;
    while i < len {
        let ok = if i < 6 { alpha(b[i]) } else { alnum(b[i]) };
        if !ok {
            return false;
        }
        i += 1;
    }
    true
}

//# harness: name=c05_bic prop=C05,C07 tier=quick unwind=13 timeout=900 stubs=fmt
//# functions: fields::swift_utils::parse_bic
//# bound: all UTF-8 strings of 0..11 bytes, unwind 13
pub fn bic() {
    let b: [u8; 11] = any_buf();
    let len = any_below(12);
    assume(is_utf8(&b, len));
    let s = as_str(&b, len);
    let spec = ref_bic(&b, len);
    decide!(parse_bic(s), spec, "parse_bic");
}

//# harness: name=c05_currency prop=C05,C06,C07 tier=quick unwind=8 timeout=600 stubs=fmt
//# functions: fields::swift_utils::parse_currency, fields::swift_utils::parse_currency_non_commodity, fields::swift_utils::validate_non_commodity_currency
//# bound: all UTF-8 strings of 0..4 bytes, unwind 8
pub fn currency() {
    let b: [u8; 4] = any_buf();
    let len = any_below(5);
    assume(is_utf8(&b, len));
    let s = as_str(&b, len);
    let shape = len == 3 && all(&b, len, is_upper);
    decide!(parse_currency(s), shape, "parse_currency");
    let commodity = shape && b[0] == b'X' && ((b[1] == b'A' && (b[2] == b'U' || b[2] == b'G')) || (b[1] == b'P' && (b[2] == b'D' || b[2] == b'T')));
    decide!(parse_currency_non_commodity(s), shape && !commodity, "parse_currency_non_commodity");
}

/// ISO 4217 minor units (independent table): 0, 3, 4 decimal currencies; everything else 2.
pub fn ref_decimals(c: &[u8; 3]) -> u8 {
    const ZERO: [&[u8; 3]; 17] = [b"BIF", b"CLP", b"DJF", b"GNF", b"ISK", b"JPY", b"KMF", b"KRW", b"PYG", b"RWF", b"UGX", b"UYI", b"VND", b"VUV", b"XAF", b"XOF", b"XPF"];
    const THREE: [&[u8; 3]; 7] = [b"BHD", b"IQD", b"JOD", b"KWD", b"LYD", b"OMR", b"TND"];
    const FOUR: [&[u8; 3]; 2] = [b"CLF", b"UYW"];
    let mut i = 0;
    while i < ZERO.len() {
        if ZERO[i] == c {
            return 0;
        }
        i += 1;
    }
    i = 0;
    while i < THREE.len() {
        if THREE[i] == c {
            return 3;
        }
        i += 1;
    }
    i = 0;
    while i < FOUR.len() {
        if FOUR[i] == c {
            return 4;
        }
        i += 1;
    }
    2
}

//# harness: name=c06_currency_decimals prop=C06 tier=quick unwind=20 timeout=900 stubs=fmt
//# functions: fields::swift_utils::get_currency_decimals
//# bound: all 3-byte ASCII upper-case codes (26^3), unwind 20
pub fn currency_decimals() {
    let b: [u8; 3] = any_buf();
    assume(is_upper(b[0]) && is_upper(b[1]) && is_upper(b[2]));
    let s = as_str(&b, 3);
    let d = get_currency_decimals(s);
    vassert!(d == ref_decimals(&b), "minor units differ from the ISO 4217 table");
    vcover!(d == 0, "zero-decimals");
    vcover!(d == 3, "three-decimals");
    vcover!(d == 4, "four-decimals");
}
