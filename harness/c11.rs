//! C11 — dates and times: calendar-valid only, one meaning everywhere, round-trip stable.
use super::rt::*;
use crate::{vassert, vcover};
use chrono::Datelike;
use chrono::Timelike;
use swift_mt_message::fields::swift_utils::{parse_date_yymmdd, parse_time_hhmm};

pub fn days_in_month(y: u32, m: u32) -> u32 {
    match m {
        1 | 3 | 5 | 7 | 8 | 10 | 12 => 31,
        4 | 6 | 9 | 11 => 30,
        2 => {
            if (y % 4 == 0 && y % 100 != 0) || y % 400 == 0 {
                29
            } else {
                28
            }
        }
        _ => 0,
    }
}

/// Reference: YYMMDD, six ASCII digits, 50-year pivot (00-49 → 20xx, 50-99 → 19xx).
pub fn ref_date(b: &[u8; 6]) -> Option<(u32, u32, u32)> {
    let mut i = 0;
    while i < 6 {
        if !is_digit(b[i]) {
            return None;
        }
        i += 1;
    }
    let d = |k: usize| (b[k] - b'0') as u32;
    let yy = d(0) * 10 + d(1);
    let mm = d(2) * 10 + d(3);
    let dd = d(4) * 10 + d(5);
    let y = if yy <= 49 { 2000 + yy } else { 1900 + yy };
    if mm < 1 || mm > 12 || dd < 1 || dd > days_in_month(y, mm) {
        return None;
    }
    Some((y, mm, dd))
}

/// parse_date_yymmdd on all 6-byte ASCII strings: accepted iff reference-valid, value equal.
//# harness: name=c11_date_yymmdd prop=C11,C07 tier=quick unwind=8 timeout=600 stubs=fmt
//# functions: fields::swift_utils::parse_date_yymmdd
//# bound: all 6-byte ASCII strings (2^42 inputs), unwind 8
pub fn date_yymmdd() {
    let b: [u8; 6] = any_buf();
    assume(is_ascii(&b, 6));
    let s = as_str(&b, 6);
    let r = parse_date_yymmdd(s);
    let spec = ref_date(&b);
    match r {
        Ok(d) => {
            vcover!(true, "ok-arm");
            vassert!(spec.is_some(), "accepted-only-if-six-digits-and-calendar-valid");
            if let Some((y, m, dd)) = spec {
                vassert!(d.year() == y as i32 && d.month() == m && d.day() == dd, "value");
            }
            core::mem::forget(d);
        }
        Err(e) => {
            vcover!(true, "err-arm");
            vassert!(spec.is_none(), "valid-date-rejected");
            core::mem::forget(e);
        }
    }
}

/// Lengths other than 6 are rejected (0..=8 bytes, any UTF-8), never a panic.
//# harness: name=c11_date_yymmdd_len prop=C11,C07 tier=quick unwind=10 timeout=600 stubs=fmt
//# functions: fields::swift_utils::parse_date_yymmdd
//# bound: all UTF-8 strings of 0..8 bytes with length != 6, unwind 10
pub fn date_yymmdd_len() {
    let b: [u8; 8] = any_buf();
    let len = any_below(9);
    assume(len != 6);
    assume(is_utf8(&b, len));
    let r = parse_date_yymmdd(as_str(&b, len));
    match r {
        Ok(d) => {
            vassert!(false, "wrong-length-accepted");
            core::mem::forget(d);
        }
        Err(e) => {
            vcover!(true, "err-arm");
            core::mem::forget(e);
        }
    }
}

/// Six bytes of arbitrary UTF-8: no panic; accepted only if ASCII digits.
//# harness: name=c11_date_yymmdd_utf8 prop=C11,C07 tier=quick unwind=8 timeout=600 stubs=fmt
//# functions: fields::swift_utils::parse_date_yymmdd
//# bound: all 6-byte non-ASCII UTF-8 strings, unwind 8
pub fn date_yymmdd_utf8() {
    let b: [u8; 6] = any_buf();
    assume(is_utf8(&b, 6));
    assume(!is_ascii(&b, 6));
    let r = parse_date_yymmdd(as_str(&b, 6));
    match r {
        Ok(d) => {
            vassert!(false, "non-ascii-accepted");
            core::mem::forget(d);
        }
        Err(e) => {
            vcover!(true, "err-arm");
            core::mem::forget(e);
        }
    }
}

/// Formatting a parsed date with the pattern every serialiser uses reproduces the digits.
pub fn date_format_roundtrip() {
    let b: [u8; 6] = any_buf();
    let spec = ref_date(&b);
    assume(spec.is_some());
    let (y, m, d) = spec.unwrap();
    let date = chrono::NaiveDate::from_ymd_opt(y as i32, m, d);
    vassert!(date.is_some(), "chrono-accepts-reference-valid");
    let date = date.unwrap();
    let out = date.format("%y%m%d").to_string();
    let ob = out.as_bytes();
    vassert!(ob.len() == 6, "len");
    let mut i = 0;
    while i < 6 {
        vassert!(ob[i] == b[i], "digits-reproduced");
        i += 1;
    }
    vcover!(true, "reached");
    core::mem::forget(out);
}

pub fn ref_time(b: &[u8; 4]) -> Option<(u32, u32)> {
    let mut i = 0;
    while i < 4 {
        if !is_digit(b[i]) {
            return None;
        }
        i += 1;
    }
    let d = |k: usize| (b[k] - b'0') as u32;
    let hh = d(0) * 10 + d(1);
    let mm = d(2) * 10 + d(3);
    if hh > 23 || mm > 59 {
        return None;
    }
    Some((hh, mm))
}

//# harness: name=c11_time_hhmm prop=C11,C07 tier=quick unwind=8 timeout=600 stubs=fmt
//# functions: fields::swift_utils::parse_time_hhmm
//# bound: all 4-byte ASCII strings, unwind 8
pub fn time_hhmm() {
    let b: [u8; 4] = any_buf();
    assume(is_ascii(&b, 4));
    let r = parse_time_hhmm(as_str(&b, 4));
    let spec = ref_time(&b);
    match r {
        Ok(t) => {
            vcover!(true, "ok-arm");
            vassert!(spec.is_some(), "accepted-only-if-four-digits-and-clock-valid");
            if let Some((h, m)) = spec {
                vassert!(t.hour() == h && t.minute() == m && t.second() == 0, "value");
            }
            core::mem::forget(t);
        }
        Err(e) => {
            vcover!(true, "err-arm");
            vassert!(spec.is_none(), "valid-time-rejected");
            core::mem::forget(e);
        }
    }
}

//# harness: name=c11_time_hhmm_utf8 prop=C11,C07 tier=quick unwind=8 timeout=600 stubs=fmt
//# functions: fields::swift_utils::parse_time_hhmm
//# bound: all UTF-8 strings of 0..6 bytes other than 4 ASCII bytes, unwind 8
pub fn time_hhmm_utf8() {
    let b: [u8; 6] = any_buf();
    let len = any_below(7);
    assume(is_utf8(&b, len));
    assume(len != 4 || !is_ascii(&b, 4));
    let r = parse_time_hhmm(as_str(&b, len));
    match r {
        Ok(t) => {
            vassert!(false, "non-hhmm-accepted");
            core::mem::forget(t);
        }
        Err(e) => {
            vcover!(true, "err-arm");
            core::mem::forget(e);
        }
    }
}
