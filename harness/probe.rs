//! Scratch probes for measuring Kani cost (not registered to any property).
use super::build::*;
use super::rt::*;
use crate::{vassert, vcover};
use super::c04_mt103::*;

//# harness: name=probe_a prop=PROBE tier=quick unwind=8 timeout=300 stubs=fmt,hash
pub fn probe_a() {
    let mut sh = neutral();
    sh.has33b = any_bool();
    sh.same33b = any_bool();
    sh.has36 = any_bool();
    let m = build(&sh);
    let errs = m.validate_network_rules(false);
    let exp = expected(&sh);
    vassert!(errs.is_empty() == !exp[6], "empty-iff");
    core::mem::forget(errs);
    core::mem::forget(m);
}

//# harness: name=probe_b prop=PROBE tier=quick unwind=8 timeout=300 stubs=fmt,hash
pub fn probe_b() {
    let mut sh = neutral();
    sh.has33b = any_bool();
    sh.same33b = any_bool();
    sh.has36 = any_bool();
    let m = build(&sh);
    let errs = m.validate_network_rules(false);
    let exp = expected(&sh);
    vassert!(has_code(&errs, "D75") == exp[6], "d75");
    core::mem::forget(errs);
    core::mem::forget(m);
}
