//! C07 — error rendering: ParseError::format_with_context on arbitrary message text and position.
use super::rt::*;
use crate::vcover;
use swift_mt_message::errors::{InvalidFieldFormatError, ParseError};

//# harness: name=c07_format_with_context prop=C07 tier=manual unwind=6 timeout=1200 stubs=fmt
//# functions: errors::ParseError::format_with_context
//# bound: original message = any UTF-8 string of 0..3 bytes; position < 2^18 (offsets and encoded line numbers 0..3); InvalidFieldFormat and FieldParsingFailed; format! -> empty text
pub fn format_with_context() {
    let b: [u8; 3] = any_buf();
    let len = any_below(4);
    assume(is_utf8(&b, len));
    let msg = as_str(&b, len);
    let pos = any_usize();
    assume(pos < (1usize << 18));
    let which = any_bool();
    let e = if which {
        ParseError::InvalidFieldFormat(Box::new(InvalidFieldFormatError {
            field_tag: String::new(),
            component_name: String::new(),
            value: String::new(),
            format_spec: String::new(),
            position: Some(pos),
            inner_error: String::new(),
        }))
    } else {
        ParseError::FieldParsingFailed {
            field_tag: String::new(),
            field_type: String::new(),
            position: pos,
            original_error: String::new(),
        }
    };
    let out = e.format_with_context(msg);
    vcover!(true, "returned");
    core::mem::forget(out);
    core::mem::forget(e);
}
